(* Proofs/PipeReattach.v — C02: source re-attach on a live bridge.  dynamicSourceWriter fetches the current source
   forwarder on every write and SetSourceConnection swaps it, so (for every script, oracle, number of re-attaches and
   schedule) the bytes accepted by the source ends, read end after end, are a prefix of what the target end sent — in
   order, exactly once — and an end that has been replaced never receives another byte. *)
From TX Require Import Model.Pipe Proofs.Pipe Proofs.PipeBridge.
From Coq Require Import ZArith ZifyN ZifyNat ZifyBool Lia.
Open Scope N_scope.

(* E' leaves every end of E except the last (the current one) untouched *)
Definition Fz (E E' : qshared) : Prop := exists rest, rest <> [] /\ E' = removelast E ++ rest.

Lemma ends_split (E : qshared) : E <> [] -> E = removelast E ++ [last E []].
Proof. intros H. apply app_removelast_last. exact H. Qed.

Lemma Fz_refl E : E <> [] -> Fz E E.
Proof. intros H. exists [last E []]. split; [discriminate|apply ends_split; exact H]. Qed.

Lemma Fz_trans E E' E'' : Fz E E' -> Fz E' E'' -> Fz E E''.
Proof.
  intros (r & Hr & ->) (r' & Hr' & ->). exists (removelast r ++ r'). split.
  - intros H. apply app_eq_nil in H. destruct H as [_ H]. contradiction.
  - rewrite (removelast_app _ Hr). now rewrite app_assoc.
Qed.

Lemma Fz_nonempty E E' : Fz E E' -> E' <> [].
Proof. intros (r & Hr & ->) H. apply app_eq_nil in H. destruct H as [_ H]. contradiction. Qed.

Lemma concat_deliver_cur E bs : E <> [] -> concat (deliver_cur E bs) = concat E ++ bs.
Proof.
  intros H. unfold deliver_cur. rewrite (ends_split E H) at 3.
  rewrite !concat_app. cbn [concat]. rewrite !app_nil_r. now rewrite app_assoc.
Qed.

Lemma Fz_deliver E bs : Fz E (deliver_cur E bs).
Proof. exists [last E [] ++ bs]. split; [discriminate|reflexivity]. Qed.

Lemma Fz_attach E : E <> [] -> Fz E (E ++ [[]]).
Proof.
  intros H. exists [last E []; []]. split; [discriminate|].
  rewrite (ends_split E H) at 1. rewrite <- app_assoc. reflexivity.
Qed.

Definition QInv (all : list byte) (s : qshared * list qthread) : Prop :=
  fst s <> [] /\ exists pc rs ws n, snd s = [QCopy pc rs ws; QAttach n] /\
    match pc with
    | QRead => all = concat (fst s) ++ readable rs
    | QWrite data e => all = concat (fst s) ++ data ++ match e with RFatal => [] | _ => readable rs end
    | QDone _ => exists rest, all = concat (fst s) ++ rest
    end.

Lemma qinv_step all s i : QInv all s -> QInv all (sys_step _ _ qstep s i) /\ Fz (fst s) (fst (sys_step _ _ qstep s i)).
Proof.
  destruct s as [E ls]. intros (HE & pc & rs & ws & n & Hls & Hpc). cbn [fst snd] in *. subst ls.
  unfold sys_step. cbn [fst snd].
  destruct i as [|[|i]]; cbn [nth_error].
  - (* the copy loop steps *)
    destruct pc as [|data e|x]; cbn [qstep].
    + destruct rs as [|r rs'].
      * cbn [fst snd upd_nth]. split; [|apply Fz_refl; exact HE].
        split; [exact HE|]. exists (QDone XReadEnd), [], ws, n. split; [reflexivity|]. exists []. exact Hpc.
      * cbn [readable] in Hpc. destruct (r_data r) as [|b bs] eqn:Ed.
        -- destruct (r_end r) eqn:Ee; cbn [fst snd upd_nth]; (split; [|apply Fz_refl; exact HE]); (split; [exact HE|]).
           ++ exists QRead, rs', ws, n. split; [reflexivity|exact Hpc].
           ++ exists QRead, rs', ws, n. split; [reflexivity|exact Hpc].
           ++ exists (QDone XReadEnd), rs', ws, n. split; [reflexivity|]. exists []. exact Hpc.
        -- cbn [fst snd upd_nth]. split; [|apply Fz_refl; exact HE]. split; [exact HE|].
           exists (QWrite (b :: bs) (r_end r)), rs', ws, n. split; [reflexivity|exact Hpc].
    + destruct (do_write ws data) as [[nw err] ws'] eqn:Ew.
      pose proof (do_write_le _ _ _ _ _ Ew) as Hle.
      destruct (firstn_split_len data nw Hle) as [Hlen Hsplit].
      set (d := firstn (N.to_nat nw) data) in *. set (rest := skipn (N.to_nat nw) data) in *.
      assert (HE' : deliver_cur E d <> []) by (apply (Fz_nonempty E), Fz_deliver).
      assert (Hc : concat (deliver_cur E d) = concat E ++ d) by (apply concat_deliver_cur; exact HE).
      assert (Hpre : exists r0, all = concat (deliver_cur E d) ++ r0).
      { eexists. rewrite Hc, Hpc, Hsplit, <- !app_assoc. reflexivity. }
      destruct err.
      { cbn [fst snd upd_nth]. split; [|apply Fz_deliver]. split; [exact HE'|].
        exists (QDone XWriteErr), rs, ws', n. split; [reflexivity|exact Hpre]. }
      destruct (N.eqb_spec nw (lenN data)) as [Heq|Hne]; cbn [negb].
      2:{ cbn [fst snd upd_nth]. split; [|apply Fz_deliver]. split; [exact HE'|].
          exists (QDone XShortWrite), rs, ws', n. split; [reflexivity|exact Hpre]. }
      assert (Hd : d = data) by (apply firstn_full; exact Heq).
      destruct e; cbn [fst snd upd_nth]; (split; [|apply Fz_deliver]); (split; [exact HE'|]).
      * exists QRead, rs, ws', n. split; [reflexivity|]. cbn [fst]. fold d. rewrite Hc, Hpc, Hd, app_assoc. reflexivity.
      * exists QRead, rs, ws', n. split; [reflexivity|]. cbn [fst]. fold d. rewrite Hc, Hpc, Hd, app_assoc. reflexivity.
      * exists (QDone XReadEnd), rs, ws', n. split; [reflexivity|]. exact Hpre.
    + cbn [fst snd upd_nth]. split; [|apply Fz_refl; exact HE]. split; [exact HE|].
      exists (QDone x), rs, ws, n. split; [reflexivity|exact Hpc].
  - (* the attacher steps *)
    destruct n as [|n]; cbn [qstep fst snd upd_nth].
    + split; [|apply Fz_refl; exact HE]. split; [exact HE|]. exists pc, rs, ws, 0%nat. split; [reflexivity|exact Hpc].
    + split; [|apply Fz_attach; exact HE].
      split; [intros H; apply app_eq_nil in H; destruct H as [_ H]; discriminate|].
      exists pc, rs, ws, n. split; [reflexivity|].
      assert (Hc : concat (E ++ [[]]) = concat E) by (rewrite concat_app; cbn; now rewrite app_nil_r).
      cbn [fst]. rewrite Hc. exact Hpc.
  - assert (En : nth_error (@nil qthread) i = None) by (destruct i; reflexivity). rewrite En. cbn [fst snd].
    split; [|apply Fz_refl; exact HE]. split; [exact HE|]. exists pc, rs, ws, n. split; [reflexivity|exact Hpc].
Qed.

Lemma qinv_run all : forall sched s, QInv all s ->
  QInv all (run _ _ qstep s sched) /\ Fz (fst s) (fst (run _ _ qstep s sched)).
Proof.
  induction sched as [|i r IH]; intros s Hs; cbn [run fold_left].
  - split; [exact Hs|apply Fz_refl; apply Hs].
  - destruct (qinv_step all s i Hs) as [Hs' Hf]. destruct (IH _ Hs') as [H1 H2]. unfold run in H1, H2.
    split; [exact H1|]. eapply Fz_trans; eassumption.
Qed.

Lemma qinv_init rs ws n : QInv (readable rs) (reattach_init rs ws n).
Proof.
  split; [discriminate|]. exists QRead, rs, ws, n. split; [reflexivity|]. reflexivity.
Qed.

Lemma QInv_prefix all s : QInv all s -> prefix (concat (fst s)) all.
Proof.
  intros (_ & pc & rs & ws & n & _ & Hpc). unfold prefix. destruct pc; [eexists; exact Hpc|eexists; exact Hpc|exact Hpc].
Qed.

(* in order, exactly once, across all the source ends the tunnel ever had *)
Theorem reattach_stream_is_prefix : forall rs ws n sched,
  prefix (concat (fst (reattach_run rs ws n sched))) (readable rs).
Proof.
  intros rs ws n sched. apply QInv_prefix. apply (qinv_run (readable rs) sched _ (qinv_init rs ws n)).
Qed.

(* an end that is not the current one never receives another byte *)
Theorem reattach_old_ends_frozen : forall rs ws n s1 s2,
  Fz (fst (reattach_run rs ws n s1)) (fst (reattach_run rs ws n (s1 ++ s2))).
Proof.
  intros rs ws n s1 s2. unfold reattach_run. rewrite run_app.
  destruct (qinv_run (readable rs) s1 _ (qinv_init rs ws n)) as [H1 _].
  apply (qinv_run (readable rs) s2 _ H1).
Qed.

(* the statement at the moment of a re-attach: after SetSourceConnection has run (step of thread 1 with a re-attach
   still to do), every end that existed before keeps exactly what it had, and everything delivered from then on — to
   the new end first — continues the target's stream exactly where it stood: in order, exactly once *)
Theorem reattach_later_bytes_go_to_new_end : forall rs ws n s1 k s2,
  nth_error (snd (reattach_run rs ws n s1)) 1 = Some (QAttach (S k)) ->
  exists rest, rest <> [] /\
    fst (reattach_run rs ws n (s1 ++ 1%nat :: s2)) = fst (reattach_run rs ws n s1) ++ rest /\
    prefix (concat (fst (reattach_run rs ws n s1)) ++ concat rest) (readable rs).
Proof.
  intros rs ws n s1 k s2 Hat.
  unfold reattach_run in *. rewrite run_app. unfold run in *. cbn [fold_left].
  set (S1 := fold_left (sys_step _ _ qstep) s1 (reattach_init rs ws n)) in *.
  assert (H1 : QInv (readable rs) S1).
  { pose proof (qinv_run (readable rs) s1 _ (qinv_init rs ws n)) as [H _]. exact H. }
  assert (Hstep : fst (sys_step _ _ qstep S1 1) = fst S1 ++ [[]]).
  { unfold sys_step. rewrite Hat. cbn. reflexivity. }
  destruct (qinv_step (readable rs) S1 1 H1) as [H2 _].
  pose proof (qinv_run (readable rs) s2 _ H2) as [H3 (rest & Hr & HB)]. unfold run in H3, HB.
  set (S3 := fold_left (sys_step _ _ qstep) s2 (sys_step _ _ qstep S1 1)) in *.
  rewrite Hstep in HB. rewrite removelast_last in HB.
  exists rest. split; [exact Hr|]. split; [exact HB|].
  pose proof (QInv_prefix _ _ H3) as Hpre. rewrite HB in Hpre. rewrite concat_app in Hpre. exact Hpre.
Qed.

(* non-vacuity: bytes before the re-attach land on end 0, bytes after it on end 1, interleaved with the loop *)
Example reattach_nonvacuous :
  let rs := [{| r_data := [1;2]; r_end := RNone |}; {| r_data := [3]; r_end := RNone |}; {| r_data := [4;5]; r_end := RFatal |}] in
  let s := reattach_run rs [] 1 [0;0;0;1;0;0;0]%nat in
  nth_error (snd (reattach_run rs [] 1 [0;0;0]%nat)) 1 = Some (QAttach 1) /\
  fst s = [[1;2]; [3;4;5]].
Proof. vm_compute. split; reflexivity. Qed.

(* the seeded variant "create the forwarder only if none exists" = the attacher's step leaves the ends alone: the same
   history then delivers the later bytes to the STALE end 0 *)
Example stale_forwarder_witness :
  let rs := [{| r_data := [1;2]; r_end := RNone |}; {| r_data := [3]; r_end := RNone |}] in
  fst (reattach_run rs [] 0 [0;0;0;1;0]%nat) = [[1;2;3]].
Proof. vm_compute. reflexivity. Qed.
Close Scope N_scope.

(* Proofs/CrossTracker.v — the tracker never influences what a FrameStream delivers *)
From TX Require Import Model.CrossFrame Model.CrossTracker Proofs.CrossFrame.
Open Scope N_scope.

Lemma next_frame_loop_t_eq M cl fuel : forall tid cap st r,
  next_frame_loop_t M false cl fuel tid cap st r = next_frame_loop M fuel tid cap st r.
Proof.
  induction fuel as [|f IH]; intros tid cap st r; [reflexivity|].
  cbn [next_frame_loop_t next_frame_loop]. destruct (decode_frame M r) as [[res al] r1].
  destruct res as [fr|e]; [|reflexivity]. cbn [andb].
  destruct (negb (bytes_eqb (f_tid fr) tid)).
  - destruct (closed_in cl (id_to_string (f_tid fr))); apply IH.
  - destruct (f_ty fr =? T_Data).
    + destruct (f_data fr); [apply IH|reflexivity].
    + destruct ((f_ty fr =? T_EOF) || (f_ty fr =? T_Close)); [reflexivity|apply IH].
Qed.

Lemma fs_read_t_eq M cl tid cap st r : fs_read_t M false cl tid cap st r = fs_read M tid cap st r.
Proof. unfold fs_read_t, fs_read. now rewrite next_frame_loop_t_eq. Qed.

Lemma read_loop_t_eq M fuel : forall tid caps dcap cls dcl st r,
  read_loop_t M false fuel tid caps dcap cls dcl st r = read_loop M fuel tid caps dcap st r.
Proof.
  induction fuel as [|f IH]; intros tid caps dcap cls dcl st r; [reflexivity|].
  cbn [read_loop_t read_loop]. rewrite fs_read_t_eq.
  destruct (fs_read M tid (hd dcap caps) st r) as [[x st'] r']. destruct x; try reflexivity. now rewrite IH.
Qed.

(* whatever the tracker reports, at every Read, about ANY tunnel — the stream's own included — a stream created with a
   tracker returns exactly what a stream without one returns: every theorem about read_stream applies unchanged *)
Theorem tracker_irrelevant M tid weof caps dcap cls dcl s c :
  read_stream_t M false tid weof caps dcap cls dcl s c = read_stream M tid weof caps dcap s c.
Proof. unfold read_stream_t, read_stream. apply read_loop_t_eq. Qed.

Corollary tracker_state_irrelevant M tid weof caps dcap cls dcl cls' dcl' s c :
  read_stream_t M false tid weof caps dcap cls dcl s c = read_stream_t M false tid weof caps dcap cls' dcl' s c.
Proof. now rewrite !tracker_irrelevant. Qed.

(* the variant that checks the tracker BEFORE the tunnel-id filter loses the stream's own bytes and its end-of-stream
   marker once the own tunnel (id "abc") is reported closed while frames are still unread *)
Lemma check_before_filter_refuted :
  exists tid ops cl,
    data_of (fst (fst (read_stream_t 65536 true tid false [] 64%nat [] cl
                         (encode_all 65536 (script_frames 65536 tid false ops)) []))) <> accepted ops.
Proof.
  exists (wire_id [97;98;99]), [WWrite [1;2;3]; WClose], [[97;98;99]]. vm_compute. discriminate.
Qed.

(* one ReadFrameFromReader call: result, allocation trace and the bytes left over depend only on the bytes, for ALL chunk
   oracles (cut lists, carry mode, end kind) *)
Theorem decode_frame_any_chunking M (r1 r2 : rd) : rest r1 = rest r2 ->
  fst (decode_frame M r1) = fst (decode_frame M r2) /\ rest (snd (decode_frame M r1)) = rest (snd (decode_frame M r2)).
Proof.
  intros E. destruct (decode_frame_spec M r1) as (a & E1 & R1 & _). destruct (decode_frame_spec M r2) as (b & E2 & R2 & _).
  rewrite E1, E2. cbn [fst snd]. rewrite R1, R2, E. auto.
Qed.
Close Scope N_scope.

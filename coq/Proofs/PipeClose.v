(* Proofs/PipeClose.v — C02: with the connections closed first, both ends observe closure after two steps of the closing
   thread whatever the stats backend does; Close itself returns in bounded steps only with a bounded cleanup. *)
From TX Require Import Model.PipeClose.
From Coq Require Import Lia.

(* ---- ConnsFirst: shape of every reachable state ---- *)
Definition rank (pc : cpc) : nat := match pc with CSrc => 0 | CTgt => 1 | CCancel => 2 | CReport => 3 | CDone => 4 end.
Definition flags_ok (pc : cpc) (sh : cshared) : Prop :=
  (1 <= rank pc -> x_src_closed sh = true) /\ (2 <= rank pc -> x_tgt_closed sh = true).
Definition Shape (s : cshared * list cthread) : Prop :=
  exists pc pat, snd s = [TCloser pc pat; TBackend] /\ flags_ok pc (fst s).
Definition pc_of (s : cshared * list cthread) : cpc := match closer_pc s with Some pc => pc | None => CDone end.
Definition pat_of (s : cshared * list cthread) : option nat :=
  match nth_error (snd s) 0 with Some (TCloser _ p) => p | _ => None end.

Ltac fl := intros; cbn in *;
  first [ reflexivity | (exfalso; lia) | match goal with H : _ -> ?g |- ?g => apply H; lia end ].
Lemma shape_step s i : Shape s ->
  Shape (sys_step _ _ (cstep ConnsFirst) s i) /\
  (i <> 0 -> pc_of (sys_step _ _ (cstep ConnsFirst) s i) = pc_of s /\ pat_of (sys_step _ _ (cstep ConnsFirst) s i) = pat_of s) /\
  (i = 0 -> (rank (pc_of s) < 2 -> rank (pc_of (sys_step _ _ (cstep ConnsFirst) s i)) = S (rank (pc_of s))) /\
            (2 <= rank (pc_of s) -> 2 <= rank (pc_of (sys_step _ _ (cstep ConnsFirst) s i)))).
Proof.
  destruct s as [sh ls]. intros (pc & pat & Hls & Hf1 & Hf2). cbn [fst snd] in *. subst ls.
  unfold sys_step, pc_of, pat_of, closer_pc. cbn [fst snd].
  destruct i as [|[|i]]; cbn [nth_error].
  - (* the closer steps *)
    destruct pc; cbn [cstep next_pc].
    + cbn. split; [exists CTgt, pat; cbn; split; [reflexivity|split; fl]|]. split; [congruence|]. intros _. cbn. split; lia.
    + cbn. split; [exists CCancel, pat; cbn; split; [reflexivity|split; fl]|]. split; [congruence|]. intros _. cbn. split; lia.
    + cbn. split; [exists CReport, pat; cbn; split; [reflexivity|split; fl]|].
      split; [congruence|]. intros _. cbn. split; lia.
    + destruct (x_released sh) eqn:Er.
      * cbn. split; [exists CDone, pat; cbn; split; [reflexivity|split; fl]|].
        split; [congruence|]. intros _. cbn. split; lia.
      * destruct pat as [[|k]|]; cbn.
        -- split; [exists CDone, (Some 0); cbn; split; [reflexivity|split; fl]|].
           split; [congruence|]. intros _. cbn. split; lia.
        -- split; [exists CReport, (Some k); cbn; split; [reflexivity|split; fl]|].
           split; [congruence|]. intros _. cbn. split; lia.
        -- split; [exists CReport, None; cbn; split; [reflexivity|split; fl]|].
           split; [congruence|]. intros _. cbn. split; lia.
    + cbn. split; [exists CDone, pat; cbn; split; [reflexivity|split; fl]|].
      split; [congruence|]. intros _. cbn. split; lia.
  - (* the backend answers *)
    cbn. split; [exists pc, pat; cbn; split; [reflexivity|split; fl]|]. split; [auto|]. intros E; discriminate.
  - assert (En : nth_error (@nil cthread) i = None) by (destruct i; reflexivity). rewrite En. cbn.
    split; [exists pc, pat; cbn; split; [reflexivity|split; fl]|]. split; [auto|]. intros E; discriminate.
Qed.

Lemma closure_after_two_steps : forall sched s, Shape s ->
  2 <= rank (pc_of s) + count_occ Nat.eq_dec sched 0 ->
  x_src_closed (fst (run _ _ (cstep ConnsFirst) s sched)) = true /\
  x_tgt_closed (fst (run _ _ (cstep ConnsFirst) s sched)) = true.
Proof.
  induction sched as [|i r IH]; intros s Hs Hc; cbn [run fold_left count_occ] in *.
  - destruct Hs as (pc & pat & Hls & Hf1 & Hf2). unfold pc_of, closer_pc in Hc. rewrite Hls in Hc. cbn in Hc.
    split; [apply Hf1|apply Hf2]; lia.
  - destruct (shape_step s i Hs) as (Hs' & Hne & Heq).
    apply (IH _ Hs'). destruct (Nat.eq_dec i 0) as [E|E].
    + destruct (Heq E) as [Hlt Hge]. destruct (Nat.lt_ge_cases (rank (pc_of s)) 2) as [Hr|Hr]; [rewrite (Hlt Hr); lia|specialize (Hge Hr); lia].
    + destruct (Hne E) as [-> _]. lia.
Qed.

Lemma shape_init pat : Shape (close_init ConnsFirst pat).
Proof. exists CSrc, pat. cbn. split; [reflexivity|split; intros H; cbn in H; exfalso; lia]. Qed.

(* closure of both ends does not depend on the completion (or even the start) of any clean handler: two steps of the
   closing thread suffice under EVERY schedule, every patience, whether or not the backend thread ever runs *)
Theorem closure_independent_of_handlers : forall pat sched,
  2 <= count_occ Nat.eq_dec sched 0 ->
  x_src_closed (fst (close_run ConnsFirst pat sched)) = true /\ x_tgt_closed (fst (close_run ConnsFirst pat sched)) = true.
Proof.
  intros pat sched H. unfold close_run. apply closure_after_two_steps; [apply shape_init|]. cbn. lia.
Qed.

(* ---- HandlersFirst (the seeded order): as long as the backend is silent the ends stay open, however long the closer runs ---- *)
Definition stuck_hf : cshared * list cthread :=
  ({| x_src_closed := false; x_tgt_closed := false; x_cancelled := true; x_released := false; x_reported := false |},
   [TCloser CReport None; TBackend]).
Lemma stuck_hf_fix n : run _ _ (cstep HandlersFirst) stuck_hf (repeat 0 n) = stuck_hf.
Proof. induction n as [|n IH]; [reflexivity|]. cbn [repeat run fold_left]. exact IH. Qed.

Theorem handlers_first_never_closes_refuted : forall n,
  x_src_closed (fst (close_run HandlersFirst None (repeat 0 n))) = false /\
  x_tgt_closed (fst (close_run HandlersFirst None (repeat 0 n))) = false.
Proof.
  intros [|n]; [split; reflexivity|]. unfold close_run. cbn [repeat run fold_left].
  change (sys_step _ _ (cstep HandlersFirst) (close_init HandlersFirst None) 0) with stuck_hf.
  pose proof (stuck_hf_fix n) as H. unfold run in H. rewrite H. split; reflexivity.
Qed.

(* ---- does Close return?  (Start returns, and runBridgeLifecycle removes the tunnel from the map, only after it does) ---- *)
Definition cmeas (s : cshared * list cthread) : nat :=
  match nth_error (snd s) 0 with
  | Some (TCloser pc (Some k)) => match pc with CSrc => 4 + k | CTgt => 3 + k | CCancel => 2 + k | CReport => 1 + k | CDone => 0 end
  | _ => 0
  end.

Lemma cmeas_step s i : Shape s ->
  (i <> 0 -> cmeas (sys_step _ _ (cstep ConnsFirst) s i) = cmeas s) /\
  (i = 0 -> cmeas (sys_step _ _ (cstep ConnsFirst) s i) <= Nat.pred (cmeas s)).
Proof.
  destruct s as [sh ls]. intros (pc & pat & Hls & _). cbn [fst snd] in *. subst ls.
  unfold sys_step, cmeas. cbn [fst snd].
  destruct i as [|[|i]]; cbn [nth_error].
  - split; [congruence|]. intros _.
    destruct pc; cbn [cstep next_pc]; try (destruct pat as [k|]; cbn; lia).
    destruct (x_released sh); [destruct pat as [k|]; cbn; lia|]. destruct pat as [[|k]|]; cbn; lia.
  - cbn. split; [reflexivity|intros E; discriminate].
  - assert (En : nth_error (@nil cthread) i = None) by (destruct i; reflexivity). rewrite En. cbn.
    split; [reflexivity|intros E; discriminate].
Qed.

Lemma cmeas_run : forall sched s, Shape s ->
  cmeas (run _ _ (cstep ConnsFirst) s sched) <= cmeas s - count_occ Nat.eq_dec sched 0 /\
  Shape (run _ _ (cstep ConnsFirst) s sched).
Proof.
  induction sched as [|i r IH]; intros s Hs; cbn [run fold_left count_occ]; [split; [lia|exact Hs]|].
  destruct (shape_step s i Hs) as (Hs' & _). destruct (cmeas_step s i Hs) as [Hne Heq].
  destruct (IH _ Hs') as [IH1 IH2]. unfold run in IH1, IH2. split; [|exact IH2].
  destruct (Nat.eq_dec i 0) as [E|E]; [specialize (Heq E)|specialize (Hne E)]; lia.
Qed.

(* bounded cleanup: Close returns after k+4 steps of its caller even if the backend never answers *)
Theorem close_returns_with_bounded_cleanup : forall k sched,
  k + 4 <= count_occ Nat.eq_dec sched 0 ->
  closer_pc (close_run ConnsFirst (Some k) sched) = Some CDone.
Proof.
  intros k sched H. unfold close_run.
  destruct (cmeas_run sched (close_init ConnsFirst (Some k)) (shape_init (Some k))) as [Hm (pc & pat & Hls & _)].
  assert (H0 : cmeas (close_init ConnsFirst (Some k)) = 4 + k) by reflexivity.
  assert (Hz : cmeas (run _ _ (cstep ConnsFirst) (close_init ConnsFirst (Some k)) sched) = 0) by lia.
  (* patience stays Some along the run: read it off the measure *)
  unfold closer_pc. unfold cmeas in Hz. rewrite Hls in *. cbn [nth_error] in *.
  destruct pat as [j|].
  - destruct pc; try lia. reflexivity.
  - (* patience None cannot arise from Some k: the closer only ever rewrites Some to Some *)
    exfalso. clear Hz Hm H0 H.
    assert (Hp : forall sched s, Shape s -> (exists j, pat_of s = Some j) -> exists j, pat_of (run _ _ (cstep ConnsFirst) s sched) = Some j).
    { clear. induction sched as [|i r IH]; intros s Hs Hj; cbn [run fold_left]; [exact Hj|].
      destruct (shape_step s i Hs) as (Hs' & Hne & _). apply (IH _ Hs').
      destruct (Nat.eq_dec i 0) as [->|E]; [|destruct (Hne E) as [_ ->]; exact Hj].
      destruct s as [sh ls]. destruct Hs as (pc & pat & Hls & _). cbn [fst snd] in Hls. subst ls.
      destruct Hj as [j Hj]. unfold pat_of in Hj. cbn in Hj. subst pat.
      unfold pat_of, sys_step. cbn [fst snd nth_error].
      destruct pc; cbn [cstep]; try (cbn; eauto; fail).
      destruct (x_released sh); [cbn; eauto|]. destruct j; cbn; eauto. }
    destruct (Hp sched (close_init ConnsFirst (Some k)) (shape_init (Some k)) (ex_intro _ k eq_refl)) as [j Hj].
    unfold pat_of in Hj. rewrite Hls in Hj. cbn in Hj. discriminate.
Qed.

(* unbounded cleanup (code before fixes/C02-cleanup-report-bounded.diff): with a silent backend Close never returns,
   although — by closure_independent_of_handlers — both ends were closed after its second step *)
Definition stuck_cf : cshared * list cthread :=
  ({| x_src_closed := true; x_tgt_closed := true; x_cancelled := true; x_released := false; x_reported := false |},
   [TCloser CReport None; TBackend]).
Lemma stuck_cf_fix n : run _ _ (cstep ConnsFirst) stuck_cf (repeat 0 n) = stuck_cf.
Proof. induction n as [|n IH]; [reflexivity|]. cbn [repeat run fold_left]. exact IH. Qed.

Theorem unbounded_cleanup_never_returns_refuted : forall n,
  closer_pc (close_run ConnsFirst None (repeat 0 n)) <> Some CDone.
Proof.
  intros n. destruct n as [|[|[|n]]]; try (vm_compute; discriminate).
  unfold close_run. cbn [repeat run fold_left].
  change (sys_step _ _ (cstep ConnsFirst) (sys_step _ _ (cstep ConnsFirst) (sys_step _ _ (cstep ConnsFirst) (close_init ConnsFirst None) 0) 0) 0) with stuck_cf.
  pose proof (stuck_cf_fix n) as H. unfold run in H. rewrite H. vm_compute. discriminate.
Qed.

(* non-vacuity: the backend answers late, in the middle of the closer's wait *)
Example close_nonvacuous :
  let s := close_run ConnsFirst (Some 3) [0; 0; 0; 0; 0; 1; 0] in
  fst s = {| x_src_closed := true; x_tgt_closed := true; x_cancelled := true; x_released := true; x_reported := true |}
  /\ closer_pc s = Some CDone.
Proof. vm_compute. split; reflexivity. Qed.

(* ---------------- the half-close relay: the listening peer learns that the other end closed OR FAILED ---------------- *)
Definition hneed (a : hthread) : nat :=
  match a with HCopy n _ => n + 2 | HHalfClose _ => 1 | _ => 0 end.
Definition a_ok (a : hthread) (sh : hshared) : Prop :=
  match a with HCopy _ _ | HHalfClose _ => True | HDone => h_peerB_sees_end sh = true | _ => False end.
Definition b_ok (b : hthread) : Prop := match b with HListen | HHalfCloseBack | HDone => True | _ => False end.

Lemma relay_gen : forall sched sh a b, a_ok a sh -> b_ok b -> hneed a <= count_occ Nat.eq_dec sched 0 ->
  h_peerB_sees_end (fst (run _ _ (hstep HalfCloseAlways) (sh, [a; b]) sched)) = true.
Proof.
  induction sched as [|i r IH]; intros sh a b Ha Hb Hn; cbn [run fold_left count_occ] in *.
  - destruct a; cbn in *; try lia; try contradiction. exact Ha.
  - unfold sys_step. cbn [fst snd]. destruct i as [|[|i]]; cbn [nth_error].
    + (* direction A->B steps *)
      destruct (Nat.eq_dec 0 0) as [_|E]; [|congruence].
      destruct a as [[|n] k|k| | |]; cbn in Ha; try contradiction; cbn [hstep upd_nth fst snd].
      * apply IH; cbn; auto. cbn in Hn. lia.
      * apply IH; cbn; auto. cbn in Hn. lia.
      * destruct k; apply IH; cbn; auto; lia.
      * apply IH; cbn; auto. lia.
    + (* direction B->A steps: it never touches what peer B has seen *)
      destruct (Nat.eq_dec 1 0) as [E|_]; [discriminate|].
      destruct b; cbn in Hb; try contradiction; cbn [hstep].
      * destruct (h_peerB_sees_end sh) eqn:E; cbn [upd_nth fst snd]; apply IH; cbn; auto.
      * cbn [upd_nth fst snd]. apply IH; cbn; auto; destruct a; cbn in *; auto.
      * cbn [upd_nth fst snd]. apply IH; cbn; auto.
    + assert (En : nth_error (@nil hthread) i = None) by (destruct i; reflexivity). rewrite En.
      destruct (Nat.eq_dec (S (S i)) 0) as [E|_]; [discriminate|]. apply IH; auto.
Qed.

(* closure propagation for "closes" (EndEOF) and "fails" (EndErr) alike: once direction A->B has had n+2 steps, B's peer
   has seen the end of the stream — under every schedule, whatever the other direction does *)
Theorem relay_peer_sees_end_on_close_or_failure : forall n kind sched,
  n + 2 <= count_occ Nat.eq_dec sched 0 ->
  h_peerB_sees_end (fst (relay_run HalfCloseAlways n kind sched)) = true.
Proof. intros n kind sched H. unfold relay_run. apply relay_gen; cbn; auto. Qed.

(* half-close only after a clean EOF: when end A FAILS, the listening peer never sees the end and the relay never returns *)
Theorem relay_eof_only_policy_refuted : forall n sched,
  h_peerB_sees_end (fst (relay_run HalfCloseOnEofOnly n EndErr sched)) = false /\
  nth_error (snd (relay_run HalfCloseOnEofOnly n EndErr sched)) 1 = Some HListen.
Proof.
  intros n sched. unfold relay_run.
  set (Inv := fun s : hshared * list hthread => h_peerB_sees_end (fst s) = false /\ nth_error (snd s) 1 = Some HListen /\
                     exists a, snd s = [a; HListen] /\ match a with HCopy _ EndErr | HHalfClose EndErr | HDone => True | _ => False end).
  assert (Hstep : forall s i, Inv s -> Inv (sys_step _ _ (hstep HalfCloseOnEofOnly) s i)).
  { intros [sh ls] i (Hp & _ & a & Hls & Ha). unfold Inv. cbn [fst snd] in *. subst ls. unfold sys_step. cbn [fst snd].
    destruct i as [|[|i]]; cbn [nth_error].
    - destruct a as [[|m] k|k| | |]; try contradiction; try destruct k; try contradiction; cbn;
        (split; [exact Hp|]); (split; [reflexivity|]); eexists; (split; [reflexivity|exact I]).
    - cbn [hstep]. rewrite Hp. cbn. split; [exact Hp|]. split; [reflexivity|]. exists a. auto.
    - assert (En : nth_error (@nil hthread) i = None) by (destruct i; reflexivity). rewrite En. cbn.
      split; [exact Hp|]. split; [reflexivity|]. exists a. auto. }
  assert (Hinit : Inv ({| h_peerB_sees_end := false; h_peerA_sees_end := false |}, [HCopy n EndErr; HListen])).
  { unfold Inv. cbn. split; [reflexivity|]. split; [reflexivity|]. eexists. split; [reflexivity|exact I]. }
  destruct (inv_all_schedules _ _ (hstep HalfCloseOnEofOnly) Inv Hstep sched _ Hinit) as (A & B & _).
  split; assumption.
Qed.

(* non-vacuity: end A fails after two chunks, B's peer reacts to the half-close, the relay returns *)
Example relay_returns_after_failure :
  relay_returned (relay_run HalfCloseAlways 2 EndErr [0; 1; 0; 0; 0; 1; 1]) = true.
Proof. vm_compute. reflexivity. Qed.

(* ---------------- Close histories with a parent cancellation ---------------- *)
Lemma ch_closed_stays g : forall h s, ch_conns_closed s = true -> ch_conns_closed (fold_left (ch_step g) h s) = true.
Proof.
  induction h as [|e r IH]; intros s Hs; [exact Hs|]. cbn [fold_left]. apply IH.
  destruct e; cbn; [destruct g, (ch_ctx_done s); cbn; auto|exact Hs].
Qed.

(* whatever came before — any number of parent cancellations and earlier Close calls, in any order — once Close has been
   called the connections are closed, and they stay closed under every continuation *)
Theorem close_runs_its_sequence : forall h1 h2,
  ch_conns_closed (ch_run CloseAlways (h1 ++ EvClose :: h2)) = true.
Proof.
  intros h1 h2. unfold ch_run. rewrite fold_left_app. cbn [fold_left]. apply ch_closed_stays.
  unfold ch_step. cbn. reflexivity.
Qed.

(* a parent cancellation by itself closes nothing (dispose does not clean up on cancellation): the owner has to call Close *)
Theorem parent_cancel_alone_closes_nothing : forall n,
  ch_conns_closed (ch_run CloseAlways (repeat EvParentCancel n)) = false.
Proof.
  intros n. unfold ch_run.
  assert (H : forall s, ch_conns_closed s = false -> ch_conns_closed (fold_left (ch_step CloseAlways) (repeat EvParentCancel n) s) = false).
  { induction n as [|n IH]; intros s Hs; [exact Hs|]. cbn [repeat fold_left]. apply IH. exact Hs. }
  apply H. reflexivity.
Qed.

(* refuted: with the "context already cancelled => nothing to do" guard, after a parent cancellation NO number of Close
   calls (and further cancellations) ever closes the connections *)
Theorem skip_when_ctx_done_never_closes_refuted : forall h,
  ch_conns_closed (ch_run SkipWhenCtxDone (EvParentCancel :: h)) = false.
Proof.
  intros h. unfold ch_run. cbn [fold_left].
  assert (H : forall h s, ch_ctx_done s = true -> ch_conns_closed s = false ->
            ch_conns_closed (fold_left (ch_step SkipWhenCtxDone) h s) = false).
  { clear h. induction h as [|e r IH]; intros s Hd Hc; [exact Hc|]. cbn [fold_left]. apply IH; destruct e; cbn; rewrite ?Hd; cbn; auto. }
  apply H; reflexivity.
Qed.

Example close_history_nonvacuous :
  ch_run CloseAlways [EvParentCancel; EvClose; EvParentCancel; EvClose]
  = {| ch_ctx_done := true; ch_conns_closed := true; ch_close_calls := 2 |}.
Proof. reflexivity. Qed.

(* ---------------- delivery of the remaining direction does not depend on elapsed time ---------------- *)
Definition DInv (m0 : nat) (s : dshared * list dthread) : Prop :=
  exists b, snd s = [b; DClock] /\
    match b with
    | DResp m => d_got (fst s) + m = m0
    | DRespDone tr => tr = false /\ d_got (fst s) = m0
    | DClock => False
    end.

Lemma dinv_step m0 s i : DInv m0 s ->
  DInv m0 (sys_step _ _ (dstep None) s i) /\
  (match nth_error (snd (sys_step _ _ (dstep None) s i)) 0 with Some (DResp m) => S m | _ => 0 end
   <= match nth_error (snd s) 0 with Some (DResp m) => S m | _ => 0 end - (if Nat.eq_dec i 0 then 1 else 0)).
Proof.
  destruct s as [sh ls]. intros (b & Hls & Hb). cbn [fst snd] in *. subst ls. unfold DInv, sys_step. cbn [fst snd].
  destruct i as [|[|i]]; cbn [nth_error].
  - destruct b as [[|m]|tr|]; try contradiction; cbn.
    + split; [eexists; split; [reflexivity|]; cbn; split; [reflexivity|lia]|lia].
    + split; [eexists; split; [reflexivity|]; cbn; lia|lia].
    + split; [eexists; split; [reflexivity|exact Hb]|lia].
  - cbn. split; [exists b; split; [reflexivity|]; destruct b; cbn in *; auto|]. destruct b; lia.
  - assert (En : nth_error (@nil dthread) i = None) by (destruct i; reflexivity). rewrite En. cbn.
    split; [exists b; auto|]. destruct b; lia.
Qed.

(* however many clock ticks fall anywhere in the schedule (any pause between any two chunks), the remaining direction
   delivers all m chunks once it has had m+1 steps *)
Theorem delivery_independent_of_elapsed_time : forall m sched,
  m + 1 <= count_occ Nat.eq_dec sched 0 ->
  d_got (fst (drain_run None m sched)) = m /\
  nth_error (snd (drain_run None m sched)) 0 = Some (DRespDone false).
Proof.
  intros m sched Hn. unfold drain_run.
  assert (Hgen : forall sched s, DInv m s ->
            DInv m (run _ _ (dstep None) s sched) /\
            (match nth_error (snd (run _ _ (dstep None) s sched)) 0 with Some (DResp k) => S k | _ => 0 end
             <= match nth_error (snd s) 0 with Some (DResp k) => S k | _ => 0 end - count_occ Nat.eq_dec sched 0)).
  { clear. induction sched as [|i r IH]; intros s Hs; cbn [run fold_left count_occ]; [split; [exact Hs|lia]|].
    destruct (dinv_step m s i Hs) as [Hs' Hm]. destruct (IH _ Hs') as [IH1 IH2]. unfold run in IH1, IH2. split; [exact IH1|].
    destruct (Nat.eq_dec i 0); lia. }
  assert (H0 : DInv m ({| d_now := 0; d_got := 0 |}, [DResp m; DClock])) by (eexists; split; [reflexivity|reflexivity]).
  destruct (Hgen sched _ H0) as [(b & Hls & Hb) Hm]. cbn [snd nth_error] in Hm. rewrite Hls in *. cbn [nth_error] in *.
  destruct b as [k|tr|]; try contradiction; [lia|]. destruct Hb as [-> Hd]. auto.
Qed.

(* refuted: a drain deadline of 5 ticks cuts a remaining direction that pauses longer *)
Theorem drain_deadline_truncates_refuted :
  exists sched, d_got (fst (drain_run (Some 5) 3 sched)) < 3 /\
                nth_error (snd (drain_run (Some 5) 3 sched)) 0 = Some (DRespDone true).
Proof. exists [0; 1; 1; 1; 1; 1; 1; 0; 0; 0]. vm_compute. split; [lia|reflexivity]. Qed.

(* ---------------- a pending token wait is aborted by the closure ---------------- *)
(* however long the pacing still to do (w), once the bridge has been closed ONE step of the waiting direction ends it *)
Definition wtriple (p : wait_policy) (t : bool * wthread * bool) (i : nat) : bool * wthread * bool :=
  let '(c, a, f) := t in
  match i with
  | 0 => let '(a', c') := wstep p a c in (c', a', f)
  | 1 => (true, a, true)
  | _ => t
  end.
Definition wstate (t : bool * wthread * bool) : bool * list wthread := let '(c, a, f) := t in (c, [a; WCloser f]).

Lemma wrun_triple p : forall s t, run _ _ (wstep p) (wstate t) s = wstate (fold_left (wtriple p) s t).
Proof.
  induction s as [|i r IH]; intros [[c a] f]; [reflexivity|]. cbn [run fold_left]. rewrite <- IH. f_equal.
  unfold sys_step, wstate, wtriple. cbn [fst snd]. destruct i as [|[|i]]; cbn [nth_error].
  - destruct (wstep p a c). reflexivity.
  - reflexivity.
  - assert (En : nth_error (@nil wthread) i = None) by (destruct i; reflexivity). rewrite En. reflexivity.
Qed.

Definition waiter (a : wthread) : Prop := match a with WWaiting _ | WExited => True | _ => False end.

Lemma wtriple_waiter t i : waiter (snd (fst t)) -> waiter (snd (fst (wtriple CancellableWait t i))) /\
  (fst (fst t) = true -> fst (fst (wtriple CancellableWait t i)) = true) /\
  (snd (fst t) = WExited -> snd (fst (wtriple CancellableWait t i)) = WExited) /\
  (i = 1 -> fst (fst (wtriple CancellableWait t i)) = true) /\
  (i = 0 -> fst (fst t) = true -> snd (fst (wtriple CancellableWait t i)) = WExited).
Proof.
  destruct t as [[c a] f]. cbn [fst snd]. intros Ha. destruct i as [|[|i]]; cbn [wtriple].
  - destruct a as [w| |]; try contradiction; [destruct c, w|]; cbn; repeat split; auto; try discriminate.
  - cbn. repeat split; auto; discriminate.
  - cbn. repeat split; auto; discriminate.
Qed.

Lemma wfold_inv : forall s t, waiter (snd (fst t)) ->
  waiter (snd (fst (fold_left (wtriple CancellableWait) s t))) /\
  (fst (fst t) = true -> fst (fst (fold_left (wtriple CancellableWait) s t)) = true) /\
  (snd (fst t) = WExited -> snd (fst (fold_left (wtriple CancellableWait) s t)) = WExited) /\
  (In 1 s -> fst (fst (fold_left (wtriple CancellableWait) s t)) = true) /\
  (In 0 s -> fst (fst t) = true -> snd (fst (fold_left (wtriple CancellableWait) s t)) = WExited).
Proof.
  induction s as [|i r IH]; intros t Ht; cbn [fold_left]; [repeat split; auto; contradiction|].
  destruct (wtriple_waiter t i Ht) as (W & C & E & C1 & E0). destruct (IH _ W) as (W' & C' & E' & C1' & E0').
  split; [exact W'|]. split; [auto|]. split; [auto|]. split.
  - intros [Ei|H]; [apply C', C1; exact Ei|apply C1'; exact H].
  - intros [Ei|H] Hc; [apply E', E0; auto|apply E0'; auto].
Qed.

Theorem cancelled_wait_ends_at_once : forall w s1 s2,
  In 1 s1 -> In 0 s2 ->
  nth_error (snd (wait_run CancellableWait w (s1 ++ s2))) 0 = Some WExited.
Proof.
  intros w s1 s2 H1 H0. unfold wait_run.
  change (false, [WWaiting w; WCloser false]) with (wstate (false, WWaiting w, false)).
  rewrite wrun_triple, fold_left_app.
  destruct (wfold_inv s1 (false, WWaiting w, false) I) as (W & _ & _ & C1 & _).
  destruct (wfold_inv s2 _ W) as (_ & _ & _ & _ & E0).
  specialize (E0 H0 (C1 H1)).
  destruct (fold_left (wtriple CancellableWait) s2 _) as [[c a] f]. cbn in *. now rewrite E0.
Qed.

(* refuted: with ReserveN + Sleep the direction is still waiting after the closure and any k < w further steps *)
Theorem sleep_wait_outlasts_closure_refuted : forall w k, k < w ->
  nth_error (snd (wait_run SleepWait w (1 :: repeat 0 k))) 0 = Some (WWaiting (w - k)).
Proof.
  intros w k Hk. unfold wait_run.
  change (false, [WWaiting w; WCloser false]) with (wstate (false, WWaiting w, false)).
  rewrite wrun_triple. cbn [fold_left wtriple].
  assert (H : forall k w, k < w -> fold_left (wtriple SleepWait) (repeat 0 k) (true, WWaiting w, true) = (true, WWaiting (w - k), true)).
  { clear. induction k as [|k IH]; intros w Hk; cbn [repeat fold_left]; [now rewrite Nat.sub_0_r|].
    destruct w as [|w]; [lia|]. cbn [wtriple wstep]. rewrite (IH w) by lia. reflexivity. }
  rewrite (H k w Hk). reflexivity.
Qed.

(* refuted: going on with the next read after a failed write leaves a hole — the result is not a prefix of what was sent *)
Theorem skip_failed_writes_not_prefix_refuted :
  exists chunks, forall rest, concat (map fst chunks) <> skip_failed_writes chunks ++ rest.
Proof.
  exists [([1; 2], false); ([3; 4], true); ([5; 6], false)]. intros rest H. cbn in H. discriminate.
Qed.

(* ---------------- the copy loop does not depend on the stats backend ---------------- *)
Definition striple (p : option nat) (t : bool * nat * sthread) (i : nat) : bool * nat * sthread :=
  let '(ans, n, a) := t in
  match i with
  | 0 => let '(a', sh') := sstep p a {| s_answered := ans; s_copied := n |} in (s_answered sh', s_copied sh', a')
  | 1 => (true, n, a)
  | _ => t
  end.
Definition sstate (t : bool * nat * sthread) : sshared * list sthread :=
  let '(ans, n, a) := t in ({| s_answered := ans; s_copied := n |}, [a; SBackend]).

Lemma srun_triple p : forall s t, run _ _ (sstep p) (sstate t) s = sstate (fold_left (striple p) s t).
Proof.
  induction s as [|i r IH]; intros [[ans n] a]; [reflexivity|]. cbn [run fold_left]. rewrite <- IH. f_equal.
  unfold sys_step, sstate, striple. cbn [fst snd]. destruct i as [|[|i]]; cbn [nth_error].
  - destruct (sstep p a _) as [a' [x y]]. reflexivity.
  - reflexivity.
  - assert (En : nth_error (@nil sthread) i = None) by (destruct i; reflexivity). rewrite En. reflexivity.
Qed.

(* with no report inside the loop: copied + remaining is invariant, and every step of the direction makes progress *)
Lemma sfold_none m0 : forall s ans n a,
  match a with SCopy m => n + m = m0 | SCopyDone => n = m0 | SBackend => False end ->
  let '(ans', n', a') := fold_left (striple None) s (ans, n, a) in
  match a' with SCopy m => n' + m = m0 | SCopyDone => n' = m0 | SBackend => False end /\
  (match a' with SCopy m => S m | _ => 0 end <= match a with SCopy m => S m | _ => 0 end - count_occ Nat.eq_dec s 0).
Proof.
  induction s as [|i r IH]; intros ans n a Ha; cbn [fold_left count_occ]; [split; [exact Ha|lia]|].
  destruct i as [|[|i]].
  - cbn [striple]. destruct a as [[|m]| |]; try contradiction; cbn [sstep s_answered s_copied].
    + specialize (IH ans n SCopyDone). cbn in IH. destruct (fold_left _ r _) as [[x y] z]. destruct (IH ltac:(lia)) as [I1 I2].
      split; [exact I1|]. destruct (Nat.eq_dec 0 0); [|congruence]. destruct z; cbn in *; lia.
    + specialize (IH ans (S n) (SCopy m)). cbn in IH. destruct (fold_left _ r _) as [[x y] z]. destruct (IH ltac:(lia)) as [I1 I2].
      split; [exact I1|]. destruct (Nat.eq_dec 0 0); [|congruence]. destruct z; cbn in *; lia.
    + specialize (IH ans n SCopyDone Ha). destruct (fold_left _ r _) as [[x y] z]. destruct IH as [I1 I2].
      split; [exact I1|]. destruct z; cbn in *; lia.
  - cbn [striple]. specialize (IH true n a Ha). destruct (fold_left _ r _) as [[x y] z]. destruct IH as [I1 I2].
    split; [exact I1|]. destruct (Nat.eq_dec 1 0); [discriminate|]. exact I2.
  - cbn [striple]. specialize (IH ans n a Ha). destruct (fold_left _ r _) as [[x y] z]. destruct IH as [I1 I2].
    split; [exact I1|]. destruct (Nat.eq_dec (S (S i)) 0); [discriminate|]. exact I2.
Qed.

(* whatever the stats backend does — answers early, late or never — a direction that gets m+1 steps has copied all m chunks *)
Theorem copy_independent_of_stats_backend : forall m sched,
  m + 1 <= count_occ Nat.eq_dec sched 0 ->
  s_copied (fst (stats_run None m sched)) = m /\ nth_error (snd (stats_run None m sched)) 0 = Some SCopyDone.
Proof.
  intros m sched Hn. unfold stats_run.
  change ({| s_answered := false; s_copied := 0 |}, [SCopy m; SBackend]) with (sstate (false, 0, SCopy m)).
  rewrite srun_triple. pose proof (sfold_none m sched false 0 (SCopy m) eq_refl) as H.
  destruct (fold_left (striple None) sched (false, 0, SCopy m)) as [[x y] z]. destruct H as [H1 H2]. cbn [sstate fst snd nth_error s_copied].
  destruct z as [k| |]; try contradiction; [change (S k <= S m - count_occ Nat.eq_dec sched 0) in H2; lia|]. auto.
Qed.

(* refuted: a synchronous report after every b-th chunk — with a silent backend the direction never gets past chunk b *)
Theorem report_in_loop_freezes_refuted : forall n,
  s_copied (fst (stats_run (Some 2) 5 (repeat 0 n))) <= 2.
Proof.
  intros n. unfold stats_run.
  change ({| s_answered := false; s_copied := 0 |}, [SCopy 5; SBackend]) with (sstate (false, 0, SCopy 5)).
  rewrite srun_triple.
  destruct n as [|[|n]]; [cbn; lia|cbn; lia|].
  assert (Hfix : forall k, fold_left (striple (Some 2)) (repeat 0 k) (false, 2, SCopy 3) = (false, 2, SCopy 3)).
  { induction k as [|k IH]; [reflexivity|]. cbn [repeat fold_left]. exact IH. }
  cbn [repeat fold_left]. change (striple (Some 2) (striple (Some 2) (false, 0, SCopy 5) 0) 0) with (false, 2, SCopy 3).
  rewrite Hfix. cbn. lia.
Qed.

(* ---------------- teardown order: the map forgets the tunnel whatever the routing store does ---------------- *)
Lemma td_forgotten_stays o : forall h s, td_in_map s = false -> td_in_map (fold_left (td_step o) h s) = false.
Proof.
  induction h as [|e r IH]; intros s Hs; [exact Hs|]. cbn [fold_left]. apply IH.
  destruct e; cbn; [|exact Hs]. destruct (td_at s); cbn; auto. destruct (td_answered s); cbn; auto.
Qed.

(* as soon as the lifecycle goroutine gets ONE step after Start returned, the tunnel is out of the map — for every history
   of store answers (early, late, never) around it *)
Theorem map_first_forgets_at_once : forall h1 h2,
  Forall (fun e => e = TdStoreAnswers) h1 ->
  td_in_map (td_run MapFirst (h1 ++ TdStep :: h2)) = false.
Proof.
  intros h1 h2 Hh. unfold td_run. rewrite fold_left_app. cbn [fold_left]. apply td_forgotten_stays.
  assert (Hat : forall h s, Forall (fun e => e = TdStoreAnswers) h -> td_at (fold_left (td_step MapFirst) h s) = td_at s).
  { induction h as [|e r IH]; intros s Hf; [reflexivity|]. inversion Hf as [|? ? He Hr]; subst. cbn [fold_left]. rewrite IH by exact Hr. reflexivity. }
  unfold td_step at 1. rewrite (Hat h1 _ Hh). reflexivity.
Qed.

(* refuted: routing record first — with a silent store the tunnel stays in the map however many steps the goroutine gets *)
Theorem routing_first_never_forgets_refuted : forall n,
  td_in_map (td_run RoutingFirst (repeat TdStep n)) = true.
Proof.
  intros n. unfold td_run.
  assert (H : forall n s, td_at s = TdRouting -> td_answered s = false -> td_in_map s = true ->
            td_in_map (fold_left (td_step RoutingFirst) (repeat TdStep n) s) = true).
  { clear. induction n as [|n IH]; intros s H1 H2 H3; [exact H3|]. cbn [repeat fold_left].
    assert (E : td_step RoutingFirst s TdStep = s) by (unfold td_step; rewrite H1, H2; reflexivity). rewrite E. apply IH; assumption. }
  apply H; reflexivity.
Qed.

Example teardown_nonvacuous :
  td_run MapFirst [TdStep; TdStep; TdStoreAnswers; TdStep] = {| td_at := TdDone; td_in_map := false; td_answered := true |}.
Proof. reflexivity. Qed.

(* ---------------- the open-ack precedes every tunnel byte on the joining connection ---------------- *)
Definition JInv (s : jshared * list jthread) : Prop :=
  exists todo n, snd s = [JHandler todo; JCopy n] /\
    ((todo = [true; false] /\ j_attached (fst s) = false /\ j_wire (fst s) = []) \/
     (todo = [false] /\ j_attached (fst s) = false /\ j_wire (fst s) = [true]) \/
     (todo = [] /\ exists rest, j_wire (fst s) = true :: rest)).

Lemma jinv_step s i : JInv s -> JInv (sys_step _ _ jstep s i).
Proof.
  destruct s as [sh ls]. intros (todo & n & Hls & H). cbn [fst snd] in *. subst ls. unfold JInv, sys_step. cbn [fst snd].
  destruct i as [|[|i]]; cbn [nth_error].
  - destruct H as [(-> & Ha & Hw)|[(-> & Ha & Hw)|(-> & rest & Hw)]]; cbn.
    + eexists _, _. split; [reflexivity|]. right. left. cbn. rewrite Hw. auto.
    + eexists _, _. split; [reflexivity|]. right. right. cbn. rewrite Hw. eauto.
    + eexists _, _. split; [reflexivity|]. right. right. eauto.
  - destruct n as [|n]; cbn.
    + exists todo, 0. auto.
    + destruct H as [(-> & Ha & Hw)|[(-> & Ha & Hw)|(-> & rest & Hw)]]; try (rewrite Ha; cbn; eexists _, _; split; [reflexivity|]; auto; fail).
      destruct (j_attached sh); cbn; eexists _, _; (split; [reflexivity|]); right; right; (split; [reflexivity|]); rewrite ?Hw; cbn; eauto.
  - assert (En : nth_error (@nil jthread) i = None) by (destruct i; reflexivity). rewrite En. exists todo, n. auto.
Qed.

(* for every schedule of the handler and the copy loop: whatever is on the joining connection's wire starts with the ack — no
   tunnel byte ever precedes it *)
Theorem ack_precedes_tunnel_bytes : forall n sched,
  j_wire (fst (join_run AckThenAttach n sched)) = [] \/
  exists rest, j_wire (fst (join_run AckThenAttach n sched)) = true :: rest.
Proof.
  intros n sched. unfold join_run.
  assert (H : JInv (run _ _ jstep ({| j_attached := false; j_wire := [] |}, [JHandler [true; false]; JCopy n]) sched)).
  { apply (inv_all_schedules _ _ jstep JInv); [intros s i; apply jinv_step|].
    eexists _, _. split; [reflexivity|]. left. auto. }
  destruct H as (todo & k & _ & [(_ & _ & Hw)|[(_ & _ & Hw)|(_ & rest & Hw)]]); rewrite Hw; eauto.
Qed.

(* refuted: attach first — a schedule in which the woken copy loop wins puts tunnel bytes in front of the ack *)
Theorem attach_then_ack_payload_first_refuted :
  exists sched rest, j_wire (fst (join_run AttachThenAck 2 sched)) = false :: rest.
Proof. exists [0; 1; 1; 0], [false; true]. reflexivity. Qed.

(* Proofs/Routing.v — lemmas about Model/Routing.v (waiting-tunnel routing table over a TTL store).
   Everything is proved for EVERY codec (enc/dec/decm/of_addr/to_addr) and EVERY post-deadline behaviour of the
   backend (keep); the hypotheses a statement needs are written out in it. *)
From Coq Require Import List NArith ZArith Bool Lia ZifyN ZifyNat ZifyBool.
Import ListNotations.
From TX Require Import Base.Val Model.Routing.
Open Scope N_scope.

(* ------------------------------------------------------------------------------------------------ *)
(* keys and cells                                                                                    *)
(* ------------------------------------------------------------------------------------------------ *)

Lemma list_eqb_iff : forall a b, list_eqb a b = true <-> a = b.
Proof.
  induction a as [|x a IH]; intros [|y b]; cbn [list_eqb]; split; intro H; try reflexivity; try discriminate.
  - apply andb_true_iff in H. destruct H as [H1 H2]. apply N.eqb_eq in H1. apply IH in H2. subst. reflexivity.
  - injection H as H1 H2. subst. apply andb_true_iff. split; [apply N.eqb_refl|apply IH; reflexivity].
Qed.

Lemma loc_eqb_iff : forall a b, loc_eqb a b = true <-> a = b.
Proof.
  intros [x|] [y|]; cbn [loc_eqb]; split; intro H; try reflexivity; try discriminate.
  - apply Nat.eqb_eq in H. subst. reflexivity.
  - injection H as H. subst. apply Nat.eqb_refl.
Qed.

Lemma cell_eqb_iff : forall a b : cell, cell_eqb a b = true <-> a = b.
Proof.
  intros [la ka] [lb kb]. unfold cell_eqb. cbn [fst snd]. rewrite andb_true_iff, loc_eqb_iff, list_eqb_iff.
  split; [intros [H1 H2]; subst; reflexivity|intro H; injection H as H1 H2; auto].
Qed.

Lemma cell_eqb_refl : forall a, cell_eqb a a = true.
Proof. intro a. apply cell_eqb_iff. reflexivity. Qed.

Lemma cell_eqb_neq : forall a b : cell, a <> b -> cell_eqb a b = false.
Proof.
  intros a b H. destruct (cell_eqb a b) eqn:E; [|reflexivity]. apply cell_eqb_iff in E. contradiction.
Qed.

Lemma diverge_sound : forall p q, diverge p q = true -> forall x y, p ++ x <> q ++ y.
Proof.
  induction p as [|a p IH]; intros [|b q] H x y; cbn [diverge] in H; try discriminate.
  cbn [app]. destruct (N.eqb a b) eqn:E.
  - intro K. injection K as _ K. exact (IH q H x y K).
  - intro K. injection K as K _. subst. rewrite N.eqb_refl in E. discriminate.
Qed.

Lemma diverge_not_prefix : forall p q, diverge p q = true -> forall x, is_prefix p (q ++ x) = false.
Proof.
  induction p as [|a p IH]; intros [|b q] H x; cbn [diverge] in H; try discriminate.
  cbn [app is_prefix]. destruct (N.eqb a b) eqn:E; [cbn [andb]; apply IH; exact H|reflexivity].
Qed.

Lemma is_prefix_app : forall p q x, is_prefix p q = true -> is_prefix p (q ++ x) = true.
Proof.
  induction p as [|a p IH]; intros [|b q] x H; cbn [is_prefix] in *; try reflexivity; try discriminate.
  cbn [app is_prefix]. apply andb_true_iff in H. destruct H as [H1 H2]. rewrite H1. cbn [andb]. apply IH. exact H2.
Qed.

(* the check Proofs/SideC09.v runs on the regenerated hybrid prefix tables: for a key family with fixed prefix P,
   no shared-persistent prefix can match any key of the family and some shared prefix matches all of them *)
Definition family_pure_shared (sp sh : list (list N)) (P : list N) : bool :=
  forallb (fun q => diverge q P) sp && existsb (fun q => is_prefix q P) sh.

Lemma family_pure_shared_sound : forall sp sh P, family_pure_shared sp sh P = true ->
  forall x, hybrid_pure_shared sp sh (P ++ x) = true /\ hybrid_route true sp sh (P ++ x) = true
            /\ hybrid_route false sp sh (P ++ x) = false.
Proof.
  intros sp sh P H x. unfold family_pure_shared in H. apply andb_true_iff in H. destruct H as [H1 H2].
  assert (A : has_prefix sp (P ++ x) = false).
  { unfold has_prefix. clear H2. induction sp as [|q sp IH]; [reflexivity|].
    cbn [forallb] in H1. apply andb_true_iff in H1. destruct H1 as [Hq Hs].
    cbn [existsb]. rewrite (diverge_not_prefix q P Hq x). cbn [orb]. apply IH. exact Hs. }
  assert (B : has_prefix sh (P ++ x) = true).
  { unfold has_prefix. clear H1 A. induction sh as [|q sh IH]; [discriminate|].
    cbn [existsb] in *. apply orb_true_iff in H2. destruct H2 as [Hq|Hs].
    - rewrite (is_prefix_app q P x Hq). reflexivity.
    - rewrite (IH Hs). apply orb_true_r. }
  unfold hybrid_pure_shared, hybrid_route. rewrite A, B. repeat split; reflexivity.
Qed.

Lemma wait_key_inj : forall c t1 t2, wait_key c t1 = wait_key c t2 -> t1 = t2.
Proof. intros c t1 t2 H. unfold wait_key in H. exact (app_inv_head _ _ _ H). Qed.

(* the two key families of the routing table never meet *)
Definition keys_disjoint (c : cfg) : Prop := forall t id, wait_key c t <> addr_key c id.

Lemma keys_disjoint_of_diverge : forall c, diverge (c_wpre c) (c_npre c) = true -> keys_disjoint c.
Proof. intros c H t id. unfold wait_key, addr_key. apply diverge_sound. exact H. Qed.

Lemma is_nil_false : forall t : str, t <> [] -> is_nil t = false.
Proof. intros [|x t] H; [contradiction|reflexivity]. Qed.

Lemma is_nil_true : forall t : str, is_nil t = true -> t = [].
Proof. intros [|x t] H; [reflexivity|discriminate]. Qed.

(* which cell an operation overwrites with a value / overwrites or deletes unconditionally / may delete *)
Definition writes (c : cfg) (o : op) : option cell :=
  match o with
  | ORegister n r => if is_nil (w_tunnel r) then None else Some (cell_of c n (wait_key c (w_tunnel r)))
  | ORegAddr n id _ => Some (cell_of c n (addr_key c id))
  | _ => None
  end.
Definition sets (c : cfg) (o : op) : option cell :=
  match o with
  | ORemove n t => if is_nil t then None else Some (cell_of c n (wait_key c t))
  | _ => writes c o
  end.
Definition may_del (c : cfg) (o : op) : option cell :=
  match o with
  | OLookup n t => if is_nil t then None else Some (cell_of c n (wait_key c t))
  | _ => None
  end.
Definition is_tick (o : op) : bool := match o with OTick _ _ => true | _ => false end.

(* user-level versions: the operation names tunnel id t *)
Definition writes_tunnel (t : str) (o : op) : Prop :=
  match o with ORegister _ r => w_tunnel r = t | _ => False end.
Definition sets_tunnel (t : str) (o : op) : Prop :=
  match o with ORegister _ r => w_tunnel r = t | ORemove _ t' => t' = t | _ => False end.
Definition mentions_tunnel (t : str) (o : op) : Prop :=
  match o with ORegister _ r => w_tunnel r = t | ORemove _ t' | OLookup _ t' => t' = t | _ => False end.

(* ---- keeping a node address alive.  kept_alive c cl a rem h: along h, starting with a remaining lifetime rem of the
   address cell cl on its backend's clock, every passing of time fits into the remaining lifetime, every
   RegisterNodeAddress on that cell re-registers the same address a (and restarts the lifetime at NodeAddressTTL), and no
   other operation sets the cell.  Operations on other cells, by any nodes, are unrestricted. *)
Definition cl_adv (cl : cell) (dn db : N) : N := match fst cl with None => db | Some _ => dn end.

Fixpoint kept_alive (c : cfg) (cl : cell) (a : str) (rem : N) (h : list op) : Prop :=
  match h with
  | [] => True
  | o :: h' =>
      match o with
      | OTick dn db => cl_adv cl dn db <= rem /\ kept_alive c cl a (rem - cl_adv cl dn db) h'
      | ORegAddr n id a' =>
          if cell_eqb (cell_of c n (addr_key c id)) cl
          then a' = a /\ kept_alive c cl a (c_addr_ttl c) h'
          else kept_alive c cl a rem h'
      | _ => sets c o <> Some cl /\ may_del c o <> Some cl /\ kept_alive c cl a rem h'
      end
  end.

(* the node of components_session.go: register, then forever { wait interval; register the same address again } *)
Fixpoint periodic_refresh (n : nat) (id a : str) (dn db : N) (k : nat) : list op :=
  match k with
  | O => []
  | S k' => OTick dn db :: ORegAddr n id a :: periodic_refresh n id a dn db k'
  end.

Section Proofs.
  Variable gstr : Type.
  Variable enc : waiting -> gstr.
  Variable dec : gstr -> option waiting.
  Variable decm : gstr -> option waiting.
  Variable of_addr : str -> gstr.
  Variable to_addr : gstr -> str.
  Variable keep : cell -> N -> bool.

  Notation state := (state gstr).
  Notation entry := (entry gstr).
  Notation step := (step gstr enc dec decm of_addr to_addr keep).
  Notation run := (run gstr enc dec decm of_addr to_addr keep).
  Notation final := (final gstr enc dec decm of_addr to_addr keep).
  Notation lookup := (lookup gstr enc dec decm of_addr to_addr keep).
  Notation st_get := (st_get gstr keep).
  Notation st_set := (st_set gstr).
  Notation st_del := (st_del gstr).
  Notation st_del_if := (st_del_if gstr).
  Notation put_waiting := (put_waiting gstr enc).
  Notation decode := (decode gstr dec decm).
  Notation now := (now gstr).
  Notation bnow := (bnow gstr).
  Notation mem := (mem gstr).
  Notation clk := (clk gstr).
  Notation mkE := (mkE gstr).

  (* ---------------------------------------------------------------------------------------------- *)
  (* frame lemmas of one step                                                                        *)
  (* ---------------------------------------------------------------------------------------------- *)

  Lemma mem_st_set_same : forall s cl v ttl, mem (st_set s cl v ttl) cl
      = Some (mkE v (if N.eqb ttl 0 then None else Some (clk s cl + ttl))).
  Proof. intros. unfold Routing.st_set, m_set. cbn [Routing.mem]. rewrite cell_eqb_refl. reflexivity. Qed.

  Lemma mem_st_set_other : forall s cl v ttl x, x <> cl -> mem (st_set s cl v ttl) x = mem s x.
  Proof. intros. unfold Routing.st_set, m_set. cbn [Routing.mem]. rewrite (cell_eqb_neq x cl H). reflexivity. Qed.

  Lemma mem_st_del_same : forall s cl, mem (st_del s cl) cl = None.
  Proof. intros. unfold Routing.st_del, m_del. cbn [Routing.mem]. rewrite cell_eqb_refl. reflexivity. Qed.

  Lemma mem_st_del_other : forall s cl x, x <> cl -> mem (st_del s cl) x = mem s x.
  Proof. intros. unfold Routing.st_del, m_del. cbn [Routing.mem]. rewrite (cell_eqb_neq x cl H). reflexivity. Qed.

  Lemma mem_st_del_if_other : forall b s cl x, x <> cl -> mem (st_del_if b s cl) x = mem s x.
  Proof. intros [|] s cl x H; [apply mem_st_del_other; exact H|reflexivity]. Qed.

  Lemma mem_st_del_if_same : forall b s cl, mem (st_del_if b s cl) cl = mem s cl \/ mem (st_del_if b s cl) cl = None.
  Proof. intros [|] s cl; [right; apply mem_st_del_same|left; reflexivity]. Qed.

  Lemma clocks_st_del_if : forall b s cl, now (st_del_if b s cl) = now s /\ bnow (st_del_if b s cl) = bnow s.
  Proof. intros [|] s cl; split; reflexivity. Qed.

  Lemma some_neq : forall (a b : cell), Some a <> Some b -> b <> a.
  Proof. intros a b H K. apply H. subst. reflexivity. Qed.

  (* an operation that neither sets nor may delete a cell leaves it alone *)
  Lemma step_mem_frame : forall c s o cl,
    sets c o <> Some cl -> may_del c o <> Some cl -> mem (fst (step c s o)) cl = mem s cl.
  Proof.
    intros c s o cl Hs Hd. destruct o as [n r|n t|n t|dn db|n id a|n id]; cbn [sets writes may_del] in Hs, Hd;
      unfold Routing.step.
    - destruct (is_nil (w_tunnel r)); [reflexivity|]. cbn [fst]. apply mem_st_set_other. apply some_neq. exact Hs.
    - destruct (is_nil t); [reflexivity|].
      destruct (st_get s _) as [v|]; [|reflexivity].
      destruct (decode v) as [r0| |]; try reflexivity.
      destruct (w_expires r0 <? now s); [|reflexivity]. cbn [fst]. apply mem_st_del_if_other. apply some_neq. exact Hd.
    - destruct (is_nil t); [reflexivity|]. cbn [fst]. apply mem_st_del_other. apply some_neq. exact Hs.
    - reflexivity.
    - cbn [fst]. apply mem_st_set_other. apply some_neq. exact Hs.
    - destruct (st_get s _) as [[r0|r0|g|g|g|]|]; try reflexivity; destruct (is_nil (to_addr g)); reflexivity.
  Qed.

  (* an operation that does not write a value into a cell leaves it alone or empties it *)
  Lemma step_mem_weak : forall c s o cl,
    writes c o <> Some cl -> mem (fst (step c s o)) cl = mem s cl \/ mem (fst (step c s o)) cl = None.
  Proof.
    intros c s o cl Hw.
    destruct o as [n r|n t|n t|dn db|n id a|n id];
      try (left; apply step_mem_frame; [exact Hw|cbn [may_del]; discriminate]).
    - (* lookup *)
      unfold Routing.step. destruct (is_nil t); [left; reflexivity|].
      destruct (st_get s _) as [v|]; [|left; reflexivity].
      destruct (decode v) as [r0| |]; try (left; reflexivity).
      destruct (w_expires r0 <? now s); [|left; reflexivity]. cbn [fst].
      destruct (cell_eqb cl (cell_of c n (wait_key c t))) eqn:E.
      + apply cell_eqb_iff in E. subst. apply mem_st_del_if_same.
      + left. apply mem_st_del_if_other. intro K. subst. rewrite cell_eqb_refl in E. discriminate.
    - (* remove *)
      unfold Routing.step. destruct (is_nil t); [left; reflexivity|]. cbn [fst].
      destruct (cell_eqb cl (cell_of c n (wait_key c t))) eqn:E.
      + apply cell_eqb_iff in E. subst. right. apply mem_st_del_same.
      + left. apply mem_st_del_other. intro K. subst. rewrite cell_eqb_refl in E. discriminate.
  Qed.

  Lemma step_clocks : forall c s o,
    now s <= now (fst (step c s o)) /\ bnow s <= bnow (fst (step c s o))
    /\ (is_tick o = false -> now (fst (step c s o)) = now s /\ bnow (fst (step c s o)) = bnow s).
  Proof.
    intros c s o. destruct o as [n r|n t|n t|dn db|n id a|n id]; unfold Routing.step; cbn [is_tick].
    - destruct (is_nil (w_tunnel r)); cbn [fst Routing.st_set Routing.now Routing.bnow]; repeat split; lia.
    - destruct (is_nil t); [cbn [fst]; repeat split; lia|].
      destruct (st_get s _) as [v|]; [|cbn [fst]; repeat split; lia].
      destruct (decode v) as [r0| |]; try (cbn [fst]; repeat split; lia).
      destruct (w_expires r0 <? now s); [|cbn [fst]; repeat split; lia].
      cbn [fst]. destruct (clocks_st_del_if (c_del_expired c) s (cell_of c n (wait_key c t))) as [A B]. rewrite A, B. repeat split; lia.
    - destruct (is_nil t); cbn [fst Routing.st_del Routing.now Routing.bnow]; repeat split; lia.
    - cbn [fst Routing.now Routing.bnow]. split; [lia|]. split; [lia|]. intro K. discriminate.
    - cbn [fst Routing.st_set Routing.now Routing.bnow]. repeat split; lia.
    - destruct (st_get s _) as [[r0|r0|g|g|g|]|]; try (cbn [fst]; repeat split; lia);
        destruct (is_nil (to_addr g)); cbn [fst]; repeat split; lia.
  Qed.

  Lemma final_cons : forall c s o h, final c s (o :: h) = final c (fst (step c s o)) h.
  Proof.
    intros. unfold Routing.final. cbn [Routing.run]. destruct (step c s o) as [s1 r]. cbn [fst].
    destruct (run c s1 h) as [s2 rs]. reflexivity.
  Qed.

  Lemma final_nil : forall c s, final c s [] = s.
  Proof. reflexivity. Qed.

  Lemma final_clocks : forall c h s, now s <= now (final c s h) /\ bnow s <= bnow (final c s h).
  Proof.
    intros c h. induction h as [|o h IH]; intro s; [rewrite final_nil; lia|].
    rewrite final_cons. pose proof (step_clocks c s o) as [A [B _]]. pose proof (IH (fst (step c s o))) as [C D]. lia.
  Qed.

  Lemma clk_mono : forall c s h cl, clk s cl <= clk (final c s h) cl.
  Proof.
    intros c s h cl. pose proof (final_clocks c h s) as [A B]. unfold Routing.clk. destruct (fst cl); assumption.
  Qed.

  (* ---------------------------------------------------------------------------------------------- *)
  (* what one lookup answers, from the content of its cell                                           *)
  (* ---------------------------------------------------------------------------------------------- *)

  Lemma decode_put : forall c cl r, dec (enc r) = Some r -> decode (put_waiting c cl r) = DOk r.
  Proof.
    intros c cl r H. unfold Routing.put_waiting. destruct (fst cl); [reflexivity|].
    destruct (c_shared_ident c); cbn [Routing.decode]; [reflexivity|]. rewrite H. reflexivity.
  Qed.

  Lemma lookup_empty_cell : forall c s n t, t <> [] ->
    mem s (cell_of c n (wait_key c t)) = None -> step c s (OLookup n t) = (s, RNotFound).
  Proof.
    intros c s n t Ht H. unfold Routing.step. rewrite (is_nil_false t Ht). unfold Routing.st_get. rewrite H. reflexivity.
  Qed.

  Lemma lookup_live_cell : forall c s n t r d, t <> [] ->
    let cl := cell_of c n (wait_key c t) in
    mem s cl = Some (mkE (put_waiting c cl r) (Some d)) -> dec (enc r) = Some r ->
    now s <= w_expires r -> clk s cl <= d ->
    step c s (OLookup n t) = (s, ROk r).
  Proof.
    intros c s n t r d Ht cl Hm Hc Hn Hb. unfold Routing.step. rewrite (is_nil_false t Ht). fold cl.
    unfold Routing.st_get. rewrite Hm. cbn [e_dl e_val].
    assert (E : (clk s cl <=? d) = true) by (apply N.leb_le; exact Hb). rewrite E. cbn [orb].
    rewrite (decode_put c cl r Hc).
    assert (F : (w_expires r <? now s) = false) by (apply N.ltb_ge; exact Hn). rewrite F. reflexivity.
  Qed.

  (* whatever the backend does with the entry, the answer is the stored record while it is unexpired, or "gone" *)
  Lemma lookup_cell_sound : forall c s n t r dl, t <> [] ->
    let cl := cell_of c n (wait_key c t) in
    mem s cl = Some (mkE (put_waiting c cl r) dl) -> dec (enc r) = Some r ->
    (step c s (OLookup n t) = (s, ROk r) /\ now s <= w_expires r)
    \/ step c s (OLookup n t) = (s, RNotFound)
    \/ (step c s (OLookup n t) = (st_del_if (c_del_expired c) s cl, RExpired) /\ w_expires r < now s).
  Proof.
    intros c s n t r dl Ht cl Hm Hc. unfold Routing.step. rewrite (is_nil_false t Ht). fold cl.
    unfold Routing.st_get. rewrite Hm. cbn [e_dl e_val].
    assert (K : forall v, v = put_waiting c cl r ->
      (match decode v with
       | DOk r0 => if w_expires r0 <? now s then (st_del_if (c_del_expired c) s cl, RExpired) else (s, ROk r0)
       | DDecodeErr => (s, RDecodeErr) | DBadType => (s, RBadType) end = (s, ROk r) /\ now s <= w_expires r)
      \/ (match decode v with
       | DOk r0 => if w_expires r0 <? now s then (st_del_if (c_del_expired c) s cl, RExpired) else (s, ROk r0)
       | DDecodeErr => (s, RDecodeErr) | DBadType => (s, RBadType) end = (st_del_if (c_del_expired c) s cl, RExpired) /\ w_expires r < now s)).
    { intros v Hv. subst v. rewrite (decode_put c cl r Hc). destruct (w_expires r <? now s) eqn:E.
      - right. split; [reflexivity|apply N.ltb_lt; exact E].
      - left. split; [reflexivity|apply N.ltb_ge; exact E]. }
    destruct dl as [d|].
    - destruct ((clk s cl <=? d) || keep cl (clk s cl)).
      + destruct (K _ eq_refl) as [A|A]; [left; exact A|right; right; exact A].
      + right; left; reflexivity.
    - destruct (K _ eq_refl) as [A|A]; [left; exact A|right; right; exact A].
  Qed.

  Lemma lookup_ok_not_expired : forall c s n t s' r,
    step c s (OLookup n t) = (s', ROk r) -> now s <= w_expires r /\ s' = s.
  Proof.
    intros c s n t s' r H. unfold Routing.step in H.
    destruct (is_nil t); [discriminate|].
    destruct (st_get s _) as [v|]; [|discriminate].
    destruct (decode v) as [r0| |]; try discriminate.
    destruct (w_expires r0 <? now s) eqn:E; [discriminate|].
    injection H as H1 H2. subst. split; [apply N.ltb_ge in E; exact E|reflexivity].
  Qed.

  (* with the repaired code (no Delete inside LookupWaitingTunnel) a lookup is a pure read: it cannot destroy anything,
     in particular not a registration made by another node between its Get and the end of the call *)
  Lemma lookup_read_only : forall c s n t, c_del_expired c = false -> fst (step c s (OLookup n t)) = s.
  Proof.
    intros c s n t H. unfold Routing.step. destruct (is_nil t); [reflexivity|].
    destruct (st_get s _) as [v|]; [|reflexivity].
    destruct (decode v) as [r0| |]; try reflexivity.
    destruct (w_expires r0 <? now s); [|reflexivity]. rewrite H. reflexivity.
  Qed.

  (* ---------------------------------------------------------------------------------------------- *)
  (* histories                                                                                       *)
  (* ---------------------------------------------------------------------------------------------- *)

  (* a live entry survives every history that does not set its cell, as long as the node clock has not passed
     its ExpiresAt at the end (lookups of the same id in between are allowed: they only delete expired records) *)
  Lemma entry_persists : forall c cl r dl, dec (enc r) = Some r ->
    forall h s, mem s cl = Some (mkE (put_waiting c cl r) dl) ->
    Forall (fun o => sets c o <> Some cl) h ->
    now (final c s h) <= w_expires r ->
    mem (final c s h) cl = Some (mkE (put_waiting c cl r) dl).
  Proof.
    intros c cl r dl Hc h. induction h as [|o h IH]; intros s Hm Hf Hn; [exact Hm|].
    rewrite final_cons in *. inversion Hf as [|o' h' Ho Hh]; subst o' h'.
    apply IH; [|exact Hh|exact Hn].
    pose proof (final_clocks c h (fst (step c s o))) as [A _].
    pose proof (step_clocks c s o) as [B _].
    destruct (may_del c o) as [cl'|] eqn:Ed.
    - destruct o as [n r0|n t|n t|dn db|n id a|n id]; cbn [may_del] in Ed; try discriminate.
      destruct (is_nil t) eqn:En; [discriminate|]. injection Ed as Ed. subst cl'.
      destruct (cell_eqb (cell_of c n (wait_key c t)) cl) eqn:E.
      + apply cell_eqb_iff in E. subst cl.
        assert (Ht : t <> []) by (intro K; subst t; discriminate).
        destruct (lookup_cell_sound c s n t r dl Ht Hm Hc) as [[K _]|[K|[K L]]].
        * rewrite K. exact Hm.
        * rewrite K. exact Hm.
        * exfalso. rewrite K in A, Hn. cbn [fst] in A, Hn.
          destruct (clocks_st_del_if (c_del_expired c) s (cell_of c n (wait_key c t))) as [A' _]. rewrite A' in A. lia.
      + rewrite step_mem_frame; [exact Hm|exact Ho|].
        cbn [may_del]. rewrite En. intro K. injection K as K. rewrite K in E. rewrite cell_eqb_refl in E. discriminate.
    - rewrite step_mem_frame; [exact Hm|exact Ho|]. rewrite Ed. discriminate.
  Qed.

  (* a cell that holds nothing or one known entry keeps that shape along every history that writes no value into it *)
  Lemma cell_shape_persists : forall c cl (e : entry) h s,
    (mem s cl = None \/ mem s cl = Some e) ->
    Forall (fun o => writes c o <> Some cl) h ->
    mem (final c s h) cl = None \/ mem (final c s h) cl = Some e.
  Proof.
    intros c cl e h. induction h as [|o h IH]; intros s Hm Hf; [exact Hm|].
    rewrite final_cons. inversion Hf as [|o' h' Ho Hh]; subst o' h'. apply IH; [|exact Hh].
    destruct (step_mem_weak c s o cl Ho) as [K|K]; rewrite K; [exact Hm|left; reflexivity].
  Qed.

  Lemma empty_cell_persists : forall c cl h s, mem s cl = None ->
    Forall (fun o => writes c o <> Some cl) h -> mem (final c s h) cl = None.
  Proof.
    intros c cl h. induction h as [|o h IH]; intros s Hm Hf; [exact Hm|].
    rewrite final_cons. inversion Hf as [|o' h' Ho Hh]; subst o' h'. apply IH; [|exact Hh].
    destruct (step_mem_weak c s o cl Ho) as [K|K]; rewrite K; [exact Hm|reflexivity].
  Qed.

  Lemma register_state : forall c s n r, w_tunnel r <> [] ->
    let cl := cell_of c n (wait_key c (w_tunnel r)) in
    let r' := stamp r (now s) (now s + c_ttl c) in
    let s1 := fst (step c s (ORegister n r)) in
    mem s1 cl = Some (mkE (put_waiting c cl r') (if N.eqb (c_ttl c) 0 then None else Some (clk s cl + c_ttl c)))
    /\ now s1 = now s /\ bnow s1 = bnow s /\ snd (step c s (ORegister n r)) = RReg r'.
  Proof.
    intros c s n r Ht cl r' s1. subst s1. unfold Routing.step. rewrite (is_nil_false _ Ht). cbn [fst snd]. fold cl. fold r'.
    rewrite mem_st_set_same. repeat split; reflexivity.
  Qed.

  (* lookup_exact: after Register r on node n1, along every history that does not set the same cell, a lookup from
     every node n2 that reads the same cell returns exactly the registered record (all ten fields), provided the node
     clock has not passed ExpiresAt and the backend has not expired the entry (its clock advanced by at most ttl) *)
  Theorem lookup_exact : forall c s n1 r h n2,
    c_ttl c <> 0 -> w_tunnel r <> [] ->
    let r' := stamp r (now s) (now s + c_ttl c) in
    dec (enc r') = Some r' ->
    let cl := cell_of c n1 (wait_key c (w_tunnel r)) in
    cell_of c n2 (wait_key c (w_tunnel r)) = cl ->
    Forall (fun o => sets c o <> Some cl) h ->
    let s2 := final c (fst (step c s (ORegister n1 r))) h in
    now s2 <= now s + c_ttl c -> clk s2 cl <= clk s cl + c_ttl c ->
    step c s2 (OLookup n2 (w_tunnel r)) = (s2, ROk r').
  Proof.
    intros c s n1 r h n2 Httl Ht r' Hc cl Hcell Hf s2 Hn Hb.
    destruct (register_state c s n1 r Ht) as [Hm _]. fold cl r' in Hm.
    apply N.eqb_neq in Httl. rewrite Httl in Hm.
    assert (Hm2 : mem s2 cl = Some (mkE (put_waiting c cl r') (Some (clk s cl + c_ttl c)))).
    { subst s2. apply entry_persists; [exact Hc|exact Hm|exact Hf|]. cbn [w_expires stamp r']. exact Hn. }
    apply (lookup_live_cell c s2 n2 (w_tunnel r) r' (clk s cl + c_ttl c) Ht); rewrite ?Hcell;
      [exact Hm2|exact Hc|cbn [w_expires stamp r']; exact Hn|exact Hb].
  Qed.

  (* lookup_sound: after Register r, along every history that writes no OTHER value into the cell (removals and
     lookups allowed), for EVERY backend behaviour and EVERY backend clock, a lookup answers either exactly the
     registered record - and then ExpiresAt has not passed - or one of the two "gone" errors *)
  Theorem lookup_sound : forall c s n1 r h n2,
    w_tunnel r <> [] ->
    let r' := stamp r (now s) (now s + c_ttl c) in
    dec (enc r') = Some r' ->
    let cl := cell_of c n1 (wait_key c (w_tunnel r)) in
    cell_of c n2 (wait_key c (w_tunnel r)) = cl ->
    Forall (fun o => writes c o <> Some cl) h ->
    let s2 := final c (fst (step c s (ORegister n1 r))) h in
    (lookup c s2 n2 (w_tunnel r) = ROk r' /\ now s2 <= now s + c_ttl c)
    \/ lookup c s2 n2 (w_tunnel r) = RNotFound \/ lookup c s2 n2 (w_tunnel r) = RExpired.
  Proof.
    intros c s n1 r h n2 Ht r' Hc cl Hcell Hf s2.
    destruct (register_state c s n1 r Ht) as [Hm _]. fold cl r' in Hm.
    set (dl := if N.eqb (c_ttl c) 0 then None else Some (clk s cl + c_ttl c)) in Hm.
    destruct (cell_shape_persists c cl (mkE (put_waiting c cl r') dl) h _ (or_intror Hm) Hf) as [K|K]; fold s2 in K.
    - right; left. unfold Routing.lookup. rewrite lookup_empty_cell; [reflexivity|exact Ht|rewrite Hcell; exact K].
    - rewrite <- Hcell in K.
      destruct (lookup_cell_sound c s2 n2 (w_tunnel r) r' dl Ht K Hc) as [[A B]|[A|[A B]]]; unfold Routing.lookup; rewrite A.
      + left. split; [reflexivity|exact B].
      + right; left; reflexivity.
      + right; right; reflexivity.
  Qed.

  (* no_stale (ttl): once the node clock has passed ExpiresAt the id does not resolve - whatever the backend kept *)
  Corollary no_stale_after_ttl : forall c s n1 r h n2,
    w_tunnel r <> [] ->
    let r' := stamp r (now s) (now s + c_ttl c) in
    dec (enc r') = Some r' ->
    let cl := cell_of c n1 (wait_key c (w_tunnel r)) in
    cell_of c n2 (wait_key c (w_tunnel r)) = cl ->
    Forall (fun o => writes c o <> Some cl) h ->
    let s2 := final c (fst (step c s (ORegister n1 r))) h in
    now s + c_ttl c < now s2 ->
    lookup c s2 n2 (w_tunnel r) = RNotFound \/ lookup c s2 n2 (w_tunnel r) = RExpired.
  Proof.
    intros c s n1 r h n2 Ht r' Hc cl Hcell Hf s2 Hlate.
    destruct (lookup_sound c s n1 r h n2 Ht Hc Hcell Hf) as [[_ B]|K]; [|exact K].
    fold s2 in B. lia.
  Qed.

  (* no_stale (remove): after RemoveWaitingTunnel the id does not resolve until somebody registers it again *)
  Theorem no_stale_after_remove : forall c s n1 t h n2,
    t <> [] ->
    let cl := cell_of c n1 (wait_key c t) in
    cell_of c n2 (wait_key c t) = cl ->
    Forall (fun o => writes c o <> Some cl) h ->
    lookup c (final c (fst (step c s (ORemove n1 t))) h) n2 t = RNotFound.
  Proof.
    intros c s n1 t h n2 Ht cl Hcell Hf.
    assert (Hm : mem (fst (step c s (ORemove n1 t))) cl = None).
    { unfold Routing.step. rewrite (is_nil_false t Ht). cbn [fst]. apply mem_st_del_same. }
    pose proof (empty_cell_persists c cl h _ Hm Hf) as K.
    unfold Routing.lookup. rewrite lookup_empty_cell; [reflexivity|exact Ht|rewrite Hcell; exact K].
  Qed.

  (* isolation: an operation (other than the passing of time) that neither sets nor may delete the cell of (n, t)
     does not change what a lookup of t from n answers *)
  Lemma lookup_depends_on : forall c s1 s2 n t,
    mem s1 (cell_of c n (wait_key c t)) = mem s2 (cell_of c n (wait_key c t)) -> now s1 = now s2 -> bnow s1 = bnow s2 ->
    lookup c s1 n t = lookup c s2 n t.
  Proof.
    intros c s1 s2 n t Hm Hn Hb. unfold Routing.lookup, Routing.step. destruct (is_nil t); [reflexivity|].
    unfold Routing.st_get, Routing.clk. rewrite Hm, Hn, Hb.
    destruct (mem s2 _) as [e|]; [|reflexivity].
    destruct (e_dl _ e) as [d|].
    - destruct ((match fst (cell_of c n (wait_key c t)) with None => bnow s2 | Some _ => now s2 end <=? d) || _); [|reflexivity].
      destruct (decode (e_val _ e)) as [r0| |]; try reflexivity. destruct (w_expires r0 <? now s2); reflexivity.
    - destruct (decode (e_val _ e)) as [r0| |]; try reflexivity. destruct (w_expires r0 <? now s2); reflexivity.
  Qed.

  Theorem isolation_step : forall c s o n t,
    let cl := cell_of c n (wait_key c t) in
    sets c o <> Some cl -> may_del c o <> Some cl -> is_tick o = false ->
    lookup c (fst (step c s o)) n t = lookup c s n t.
  Proof.
    intros c s o n t cl Hs Hd Ht. destruct (step_clocks c s o) as [_ [_ K]]. destruct (K Ht) as [A B].
    apply lookup_depends_on; [apply step_mem_frame; assumption|exact A|exact B].
  Qed.

  Theorem isolation : forall c n t h s,
    let cl := cell_of c n (wait_key c t) in
    Forall (fun o => sets c o <> Some cl /\ may_del c o <> Some cl /\ is_tick o = false) h ->
    lookup c (final c s h) n t = lookup c s n t.
  Proof.
    intros c n t h. induction h as [|o h IH]; intros s cl Hf; [reflexivity|].
    rewrite final_cons. inversion Hf as [|o' h' [A [B C]] Hh]; subst o' h'.
    rewrite (IH _ Hh). apply isolation_step; assumption.
  Qed.

  (* ---------------------------------------------------------------------------------------------- *)
  (* node addresses: a refreshed address stays resolvable                                             *)
  (* ---------------------------------------------------------------------------------------------- *)

  Lemma step_clk_nontick : forall c s o cl, is_tick o = false -> clk (fst (step c s o)) cl = clk s cl.
  Proof.
    intros c s o cl H. destruct (step_clocks c s o) as [_ [_ K]]. destruct (K H) as [A B].
    unfold Routing.clk. destruct (fst cl); [exact A|exact B].
  Qed.

  Lemma addr_alive_persists : forall c cl a, c_addr_ttl c <> 0 ->
    forall h s rem d,
    mem s cl = Some (mkE (SStr (of_addr a)) (Some d)) -> clk s cl + rem <= d ->
    kept_alive c cl a rem h ->
    exists d', mem (final c s h) cl = Some (mkE (SStr (of_addr a)) (Some d')) /\ clk (final c s h) cl <= d'.
  Proof.
    intros c cl a Httl h. induction h as [|o h IH]; intros s rem d Hm Hd Hk.
    - exists d. split; [exact Hm|]. rewrite final_nil. lia.
    - rewrite final_cons. cbn [kept_alive] in Hk.
      destruct o as [n r|n t|n t|dn db|n id a'|n id].
      + destruct Hk as [A [B K]]. apply (IH _ rem d); [|  |exact K].
        * rewrite step_mem_frame; assumption.
        * rewrite step_clk_nontick by reflexivity. exact Hd.
      + destruct Hk as [A [B K]]. apply (IH _ rem d); [|  |exact K].
        * rewrite step_mem_frame; assumption.
        * rewrite step_clk_nontick by reflexivity. exact Hd.
      + destruct Hk as [A [B K]]. apply (IH _ rem d); [|  |exact K].
        * rewrite step_mem_frame; assumption.
        * rewrite step_clk_nontick by reflexivity. exact Hd.
      + destruct Hk as [A K]. apply (IH _ (rem - cl_adv cl dn db) d); [exact Hm| |exact K].
        unfold Routing.step. cbn [fst]. unfold Routing.clk, cl_adv in *. cbn [Routing.now Routing.bnow].
        destruct (fst cl); lia.
      + destruct (cell_eqb (cell_of c n (addr_key c id)) cl) eqn:E.
        * apply cell_eqb_iff in E. destruct Hk as [Ha K]. subst a'.
          apply (IH _ (c_addr_ttl c) (clk s cl + c_addr_ttl c)); [| |exact K].
          -- unfold Routing.step. cbn [fst]. rewrite E. rewrite mem_st_set_same.
             apply N.eqb_neq in Httl. rewrite Httl. reflexivity.
          -- rewrite step_clk_nontick by reflexivity. lia.
        * apply (IH _ rem d); [| |exact Hk].
          -- unfold Routing.step. cbn [fst]. apply eq_trans with (2 := Hm). apply mem_st_set_other.
             intro K. subst cl. rewrite cell_eqb_refl in E. discriminate.
          -- rewrite step_clk_nontick by reflexivity. exact Hd.
      + destruct Hk as [A [B K]]. apply (IH _ rem d); [|  |exact K].
        * rewrite step_mem_frame; assumption.
        * rewrite step_clk_nontick by reflexivity. exact Hd.
  Qed.

  (* keep-alive: after RegisterNodeAddress(id, a), along every history in which the address is re-registered before
     its remaining lifetime runs out (each refresh restarts NodeAddressTTL) and nobody else sets its key,
     GetNodeAddress(id) from every node that reads the same cell returns a *)
  Theorem addr_kept_alive : forall c s n0 id a h n2,
    (forall x, to_addr (of_addr x) = x) -> c_addr_ttl c <> 0 -> a <> [] ->
    let cl := cell_of c n0 (addr_key c id) in
    cell_of c n2 (addr_key c id) = cl ->
    kept_alive c cl a (c_addr_ttl c) h ->
    snd (step c (final c (fst (step c s (ORegAddr n0 id a))) h) (OGetAddr n2 id)) = RAddr a.
  Proof.
    intros c s n0 id a h n2 addr_codec Httl Ha cl Hcell Hk.
    assert (Hm : mem (fst (step c s (ORegAddr n0 id a))) cl = Some (mkE (SStr (of_addr a)) (Some (clk s cl + c_addr_ttl c)))).
    { unfold Routing.step. cbn [fst]. fold cl. rewrite mem_st_set_same. apply N.eqb_neq in Httl. rewrite Httl. reflexivity. }
    destruct (addr_alive_persists c cl a Httl h _ (c_addr_ttl c) _ Hm) as [d' [Hm' Hd']]; [|exact Hk|].
    - rewrite step_clk_nontick by reflexivity. lia.
    - unfold Routing.step at 1. rewrite Hcell. unfold Routing.st_get. rewrite Hm'. cbn [e_dl e_val].
      apply N.leb_le in Hd'. rewrite Hd'. cbn [orb]. rewrite addr_codec. rewrite (is_nil_false a Ha). reflexivity.
  Qed.

  (* the refresh loop of the server: any number k of rounds { interval passes; register again }, then any tail of time
     within one lifetime - the address resolves, however long the node has been up *)
  Lemma kept_alive_periodic : forall c n id a dn db k tail_n tail_b,
    let cl := cell_of c n (addr_key c id) in
    cl_adv cl dn db <= c_addr_ttl c -> cl_adv cl tail_n tail_b <= c_addr_ttl c ->
    kept_alive c cl a (c_addr_ttl c) (periodic_refresh n id a dn db k ++ [OTick tail_n tail_b]).
  Proof.
    intros c n id a dn db k tail_n tail_b cl Hi Ht. induction k as [|k IH].
    - cbn [periodic_refresh app kept_alive]. split; [exact Ht|exact I].
    - cbn [periodic_refresh app kept_alive]. split; [exact Hi|]. fold cl. rewrite cell_eqb_refl. split; [reflexivity|exact IH].
  Qed.

  Theorem refreshed_address_resolves : forall c s n id a dn db k tail_n tail_b n2,
    (forall x, to_addr (of_addr x) = x) -> c_addr_ttl c <> 0 -> a <> [] ->
    let cl := cell_of c n (addr_key c id) in
    cell_of c n2 (addr_key c id) = cl ->
    cl_adv cl dn db <= c_addr_ttl c -> cl_adv cl tail_n tail_b <= c_addr_ttl c ->
    snd (step c (final c (fst (step c s (ORegAddr n id a))) (periodic_refresh n id a dn db k ++ [OTick tail_n tail_b]))
              (OGetAddr n2 id)) = RAddr a.
  Proof.
    intros c s n id a dn db k tail_n tail_b n2 addr_codec Httl Ha cl Hcell Hi Ht.
    apply addr_kept_alive; [exact addr_codec|exact Httl|exact Ha|exact Hcell|]. apply kept_alive_periodic; assumption.
  Qed.

  (* ---- from tunnel ids to cells: with the waiting keys in the shared store every node reads the same cell, and an
     operation that names another tunnel id (or any node address) touches another cell *)
  Lemma shared_cell : forall c n t, c_route c (wait_key c t) = true -> cell_of c n (wait_key c t) = (None, wait_key c t).
  Proof. intros c n t H. unfold cell_of. rewrite H. reflexivity. Qed.

  Lemma cell_of_key : forall c n k cl, cell_of c n k = cl -> snd cl = k.
  Proof. intros c n k cl H. subst cl. reflexivity. Qed.

  Lemma some_cell_key : forall c n k n' k', Some (cell_of c n k) = Some (cell_of c n' k') -> k = k'.
  Proof. intros c n k n' k' H. unfold cell_of in H. injection H as _ H. exact H. Qed.

  Lemma sets_other_tunnel : forall c t o n, keys_disjoint c ->
    ~ sets_tunnel t o -> sets c o <> Some (cell_of c n (wait_key c t)).
  Proof.
    intros c t o n Hd Hn. destruct o as [n0 r|n0 t0|n0 t0|dn db|n0 id a|n0 id]; cbn [sets writes sets_tunnel] in *;
      try discriminate.
    - destruct (is_nil (w_tunnel r)); [discriminate|]. intro K. apply some_cell_key in K. apply wait_key_inj in K. contradiction.
    - destruct (is_nil t0); [discriminate|]. intro K. apply some_cell_key in K. apply wait_key_inj in K. contradiction.
    - intro K. apply some_cell_key in K. symmetry in K. exact (Hd _ _ K).
  Qed.

  Lemma writes_other_tunnel : forall c t o n, keys_disjoint c ->
    ~ writes_tunnel t o -> writes c o <> Some (cell_of c n (wait_key c t)).
  Proof.
    intros c t o n Hd Hn. destruct o as [n0 r|n0 t0|n0 t0|dn db|n0 id a|n0 id]; cbn [writes writes_tunnel] in *;
      try discriminate.
    - destruct (is_nil (w_tunnel r)); [discriminate|]. intro K. apply some_cell_key in K. apply wait_key_inj in K. contradiction.
    - intro K. apply some_cell_key in K. symmetry in K. exact (Hd _ _ K).
  Qed.

  Lemma may_del_other_tunnel : forall c t o n,
    ~ mentions_tunnel t o -> may_del c o <> Some (cell_of c n (wait_key c t)).
  Proof.
    intros c t o n Hn. destruct o as [n0 r|n0 t0|n0 t0|dn db|n0 id a|n0 id]; cbn [may_del mentions_tunnel] in *;
      try discriminate.
    destruct (is_nil t0); [discriminate|]. intro K. apply some_cell_key in K. apply wait_key_inj in K. contradiction.
  Qed.

  Lemma Forall_impl' : forall (P Q : op -> Prop) h, (forall o, P o -> Q o) -> Forall P h -> Forall Q h.
  Proof. intros P Q h H F. induction F; constructor; auto. Qed.

  (* ---------------------------------------------------------------------------------------------- *)
  (* the statements of Properties/C09.v in terms of tunnel ids and nodes                              *)
  (* ---------------------------------------------------------------------------------------------- *)

  (* (1) routable from ANY node, all ten fields *)
  Theorem routable_from_any_node : forall c s n1 r h n2,
    keys_disjoint c -> c_route c (wait_key c (w_tunnel r)) = true ->
    c_ttl c <> 0 -> w_tunnel r <> [] ->
    let r' := stamp r (now s) (now s + c_ttl c) in
    dec (enc r') = Some r' ->
    Forall (fun o => ~ sets_tunnel (w_tunnel r) o) h ->
    let s2 := final c (fst (step c s (ORegister n1 r))) h in
    now s2 <= now s + c_ttl c -> bnow s2 <= bnow s + c_ttl c ->
    lookup c s2 n2 (w_tunnel r) = ROk r'.
  Proof.
    intros c s n1 r h n2 Hd Hr Httl Ht r' Hc Hf s2 Hn Hb.
    unfold Routing.lookup. subst s2.
    rewrite (lookup_exact c s n1 r h n2 Httl Ht Hc); [reflexivity| | | |].
    - rewrite !shared_cell by exact Hr. reflexivity.
    - apply (Forall_impl' _ _ h (fun o H => sets_other_tunnel c (w_tunnel r) o n1 Hd H) Hf).
    - exact Hn.
    - rewrite shared_cell by exact Hr. exact Hb.
  Qed.

  (* (2) never stale, never foreign *)
  Theorem never_stale_or_foreign : forall c s n1 r h n2,
    keys_disjoint c -> c_route c (wait_key c (w_tunnel r)) = true -> w_tunnel r <> [] ->
    let r' := stamp r (now s) (now s + c_ttl c) in
    dec (enc r') = Some r' ->
    Forall (fun o => ~ writes_tunnel (w_tunnel r) o) h ->
    let s2 := final c (fst (step c s (ORegister n1 r))) h in
    (lookup c s2 n2 (w_tunnel r) = ROk r' /\ now s2 <= now s + c_ttl c)
    \/ lookup c s2 n2 (w_tunnel r) = RNotFound \/ lookup c s2 n2 (w_tunnel r) = RExpired.
  Proof.
    intros c s n1 r h n2 Hd Hr Ht r' Hc Hf s2.
    apply (lookup_sound c s n1 r h n2 Ht Hc).
    - rewrite !shared_cell by exact Hr. reflexivity.
    - apply (Forall_impl' _ _ h (fun o H => writes_other_tunnel c (w_tunnel r) o n1 Hd H) Hf).
  Qed.

  Theorem gone_after_ttl : forall c s n1 r h n2,
    keys_disjoint c -> c_route c (wait_key c (w_tunnel r)) = true -> w_tunnel r <> [] ->
    let r' := stamp r (now s) (now s + c_ttl c) in
    dec (enc r') = Some r' ->
    Forall (fun o => ~ writes_tunnel (w_tunnel r) o) h ->
    let s2 := final c (fst (step c s (ORegister n1 r))) h in
    now s + c_ttl c < now s2 ->
    lookup c s2 n2 (w_tunnel r) = RNotFound \/ lookup c s2 n2 (w_tunnel r) = RExpired.
  Proof.
    intros c s n1 r h n2 Hd Hr Ht r' Hc Hf s2 Hlate.
    apply (no_stale_after_ttl c s n1 r h n2 Ht Hc); [|  |exact Hlate].
    - rewrite !shared_cell by exact Hr. reflexivity.
    - apply (Forall_impl' _ _ h (fun o H => writes_other_tunnel c (w_tunnel r) o n1 Hd H) Hf).
  Qed.

  Theorem gone_after_remove : forall c s n1 t h n2,
    keys_disjoint c -> c_route c (wait_key c t) = true -> t <> [] ->
    Forall (fun o => ~ writes_tunnel t o) h ->
    lookup c (final c (fst (step c s (ORemove n1 t))) h) n2 t = RNotFound.
  Proof.
    intros c s n1 t h n2 Hd Hr Ht Hf.
    apply (no_stale_after_remove c s n1 t h n2 Ht).
    - rewrite !shared_cell by exact Hr. reflexivity.
    - apply (Forall_impl' _ _ h (fun o H => writes_other_tunnel c t o n1 Hd H) Hf).
  Qed.

  (* (3) isolation: operations on other tunnel ids and on node addresses do not change the answer *)
  Theorem other_ids_do_not_interfere : forall c n t h s,
    keys_disjoint c ->
    Forall (fun o => ~ mentions_tunnel t o /\ is_tick o = false) h ->
    lookup c (final c s h) n t = lookup c s n t.
  Proof.
    intros c n t h s Hd Hf. apply isolation.
    apply (Forall_impl' _ _ h) with (2 := Hf). intros o [A B]. split; [|split; [|exact B]].
    - apply sets_other_tunnel; [exact Hd|]. intro K. apply A.
      destruct o; cbn [sets_tunnel mentions_tunnel] in *; try contradiction; exact K.
    - apply may_del_other_tunnel. exact A.
  Qed.
End Proofs.

(* Proofs/RegistryOne.v — C07 headline clause: ONE live authenticated control connection per client.
   J s: every registered, authenticated connection with a positive client id whose transport is open and accepts writes IS the
   connection its client id resolves to.  It is an invariant of all histories of the production operation set, and — with the
   connections whose login is between its auth step and its UpdateAuth step excepted — of every interleaving of the lock sections. *)
From Coq Require Import List NArith Bool Lia ZArith ZifyN ZifyNat ZifyBool.
From TX Require Import Base.Threads Model.Registry Model.RegistryMicro Proofs.Registry Proofs.RegistryCounts Proofs.RegistryMicro.
Import ListNotations.
Open Scope N_scope.

Definition ok_kind (kind x : N) : bool := (kind =? 0) && (0 <? x).

(* the production operation set: what the server's own call sites do.  Excluded: a login that authenticates on a tunnel-type
   handshake, Register of a pre-authenticated record (temporary control connections) and the raw UpdateAuth API — each of them
   legitimately leaves a second authenticated record of a client beside the indexed one. *)
Definition production_op (o : op) : bool :=
  match o with
  | Handshake _ kind x isCtl => isCtl || negb (ok_kind kind x)
  | RegRaw _ pre => pre =? 0
  | ReReg _ pre => pre =? 0
  | AuthRaw _ _ => false
  | _ => true
  end.

(* live: registered record r of connection c is authenticated for a client and its transport is open and writable *)
Definition JPc (P : N -> Prop) (rg : amap ctl) (ix : amap N) (cl wf : list N) : Prop :=
  forall c r, get c rg = Some r -> c_auth r = true -> 0 < c_cid r -> mem c cl = false -> mem c wf = false ->
              get (c_cid r) ix = Some c \/ P c.
Definition JP (P : N -> Prop) (s : st) : Prop := JPc P (reg s) (idx s) (closed s) (wfail s).
Definition J (s : st) : Prop := JP (fun _ => False) s.
Definition ND (s : st) : Prop := NoDup (keys (reg s)) /\ NoDup (keys (idx s)).

Lemma ND_of_Inv s : Inv s -> ND s.
Proof. intros [H1 H2 _]. split; assumption. Qed.
Lemma ND_of_M clg s : M clg s -> ND s.
Proof. intros [H1 H2 _ _]. split; assumption. Qed.

Lemma get_del_Some {V} c c0 (m : amap V) r : get c (del c0 m) = Some r -> c <> c0 /\ get c m = Some r.
Proof.
  intros H. destruct (N.eq_dec c c0) as [->|Hne]; [rewrite get_del_same in H; discriminate|].
  rewrite get_del_other in H by exact Hne. auto.
Qed.

Lemma mem_add_false c c0 l : mem c (add c0 l) = false -> mem c l = false.
Proof. intros H. destruct (mem c l) eqn:E; [|reflexivity]. rewrite (mem_add_mono c c0 l E) in H. discriminate. Qed.

Lemma JPc_weaken (P P' : N -> Prop) rg ix cl wf : (forall c, P c -> P' c) -> JPc P rg ix cl wf -> JPc P' rg ix cl wf.
Proof. intros HP H c r H1 H2 H3 H4 H5. destruct (H c r H1 H2 H3 H4 H5) as [Hi|Hp]; [left; exact Hi|right; apply HP; exact Hp]. Qed.

Lemma JPc_shrink P rg ix cl wf cl' wf' :
  JPc P rg ix cl wf -> (forall c, mem c cl' = false -> mem c cl = false) -> (forall c, mem c wf' = false -> mem c wf = false) ->
  JPc P rg ix cl' wf'.
Proof. intros H Hc Hw c r H1 H2 H3 H4 H5. exact (H c r H1 H2 H3 (Hc c H4) (Hw c H5)). Qed.

Lemma JPc_remove P rg ix cl wf cl' c0 r0 :
  JPc P rg ix cl wf -> (forall c, mem c cl' = false -> mem c cl = false) -> JPc P (del c0 rg) (unindex c0 r0 ix) cl' wf.
Proof.
  intros H Hc c r H1 H2 H3 H4 H5. apply get_del_Some in H1 as [Hne H1].
  destruct (H c r H1 H2 H3 (Hc c H4) H5) as [Hi|Hp]; [left; apply unindex_keeps; assumption|right; exact Hp].
Qed.

Lemma JPc_set_dead P rg ix cl wf c r : JPc P rg ix cl wf -> c_auth r = false -> JPc P (set c r rg) ix cl wf.
Proof.
  intros H Hd c' r' H1 H2 H3 H4 H5. destruct (N.eq_dec c' c) as [->|Hne].
  - rewrite get_set_same in H1. injection H1 as <-. congruence.
  - rewrite get_set_other in H1 by exact Hne. exact (H c' r' H1 H2 H3 H4 H5).
Qed.

Lemma JPc_touch P rg ix cl wf c r r' :
  JPc P rg ix cl wf -> get c rg = Some r -> c_auth r' = c_auth r -> c_cid r' = c_cid r -> JPc P (set c r' rg) ix cl wf.
Proof.
  intros H Hr Ha Hc c' r2 H1 H2 H3 H4 H5. destruct (N.eq_dec c' c) as [->|Hne].
  - rewrite get_set_same in H1. injection H1 as <-. rewrite Ha in H2. rewrite Hc in *. exact (H c r Hr H2 H3 H4 H5).
  - rewrite get_set_other in H1 by exact Hne. exact (H c' r2 H1 H2 H3 H4 H5).
Qed.

(* ---- state transformers ---- *)
Lemma JP_weaken (P P' : N -> Prop) s : (forall c, P c -> P' c) -> JP P s -> JP P' s.
Proof. apply JPc_weaken. Qed.

Lemma JP_remove_locked P c r s : JP P s -> JP P (remove_locked c r s).
Proof. intros H. unfold JP, remove_locked, with_reg, with_idx, with_closed. proj. apply (JPc_remove _ _ _ (closed s)); [exact H|intros c1 Hc1; exact (mem_add_false _ _ _ Hc1)]. Qed.

Lemma JP_registry_remove P c s : JP P s -> JP P (registry_remove c s).
Proof. intros H. unfold registry_remove. destruct (get c (reg s)); [apply JP_remove_locked|]; exact H. Qed.

Lemma JP_unregister P c s : JP P s -> JP P (registry_unregister c s).
Proof.
  intros H. unfold registry_unregister. destruct (get c (reg s)); [|exact H].
  unfold JP, with_reg, with_idx. proj. apply (JPc_remove _ _ _ (closed s)); [exact H|auto].
Qed.

Lemma JP_tunnel_remove P c s : JP P s -> JP P (tunnel_remove c s).
Proof. intros H. unfold tunnel_remove. destruct (get c (tun s)); exact H. Qed.

Lemma JP_bump P s : JP P s -> JP P (bump s).
Proof. intros H. exact H. Qed.

Lemma JP_close_conn P c s : JP P s -> JP P (close_conn c s).
Proof.
  intros H. unfold close_conn. apply JP_tunnel_remove. apply JP_registry_remove.
  destruct (mem c (sess s)); [|exact H]. unfold JP, with_closed, with_sess. proj.
  apply (JPc_shrink _ _ _ (closed s) (wfail s)); [exact H|intros c1 Hc1; exact (mem_add_false _ _ _ Hc1)|auto].
Qed.

Lemma JP_kick P x newc s : JP P s -> JP P (kick x newc s).
Proof.
  intros H. unfold kick. destruct (get x (idx s)) as [o|]; [|exact H]. destruct (o =? newc); [exact H|].
  destruct (get o (reg s)) as [r|]; unfold JP, with_closed, with_reg, with_idx; proj.
  - apply (JPc_remove _ _ _ (closed s)); [exact H|intros c1 Hc1; exact (mem_add_false _ _ _ Hc1)].
  - apply (JPc_shrink _ _ _ (closed s) (wfail s)); [exact H|intros c1 Hc1; exact (mem_add_false _ _ _ Hc1)|auto].
Qed.

Lemma JP_sweep_one P s e : JP P s -> JP P (sweep_one s e).
Proof.
  intros H. destruct e as [c r]. unfold sweep_one.
  set (s1 := with_reg (with_idx s (unindex c r (idx s))) (del c (reg s))).
  assert (H1 : JP P s1) by (unfold JP, s1, with_reg, with_idx; proj; apply (JPc_remove _ _ _ (closed s)); [exact H|auto]).
  pose proof (JP_close_conn P c s1 H1) as H2. unfold JP, with_closed in *. proj.
  apply (JPc_shrink _ _ _ (closed (close_conn c s1)) (wfail (close_conn c s1))); [exact H2|intros c1 Hc1; exact (mem_add_false _ _ _ Hc1)|auto].
Qed.

Lemma JP_sweep P k s : JP P s -> JP P (fst (sweep k s)).
Proof.
  unfold sweep. cbn [fst]. generalize (stale_entries k s). intros l. revert s.
  induction l as [|e t IH]; cbn [fold_left]; intros s H; [exact H|]. apply IH. apply JP_sweep_one. exact H.
Qed.

(* Register of a record that is not authenticated (what handleHandshake registers; unauthenticated claims) *)
Lemma JP_register_dead P k c r s : JP P s -> c_auth r = false -> JP P (registry_register k c r s).
Proof.
  intros H Hd. unfold registry_register.
  assert (Hs1 : forall s1, JP P s1 ->
    JP P (let s2 := match get c (reg s1) with Some r' => remove_locked c r' s1 | None => s1 end in
          let s3 := with_reg s2 (set c r (reg s2)) in
          if c_auth r && (0 <? c_cid r) then with_idx s3 (set (c_cid r) c (idx s3)) else s3)).
  { intros s1 H1. cbn zeta. rewrite Hd. cbn [andb].
    set (s2 := match get c (reg s1) with Some r' => remove_locked c r' s1 | None => s1 end).
    assert (H2 : JP P s2) by (unfold s2; destruct (get c (reg s1)); [apply JP_remove_locked|]; exact H1).
    unfold JP, with_reg. proj. apply JPc_set_dead; assumption. }
  destruct ((0 <? maxCtl k) && (maxCtl k <=? size (reg s))).
  - destruct (find_oldest (reg s)) as [[o ro]|]; [|exact H]. apply Hs1. apply JP_remove_locked. exact H.
  - apply Hs1. exact H.
Qed.

Lemma JP_rereg_dead P k c r s : JP P s -> c_auth r = false -> JP P (registry_rereg Current k c r s).
Proof.
  intros H Hd. unfold registry_rereg. cbn [keeps_shared]. destruct (get c (reg s)).
  - apply JP_register_dead; [apply JP_unregister; exact H|exact Hd].
  - apply JP_register_dead; assumption.
Qed.

(* ND through the pieces of handleHandshake *)
Lemma ND_remove_locked c r s : ND s -> ND (remove_locked c r s).
Proof. intros [H1 H2]. unfold ND, remove_locked, with_reg, with_idx, with_closed. proj. split; [apply nodup_del|apply nodup_unindex]; assumption. Qed.
Lemma ND_registry_remove c s : ND s -> ND (registry_remove c s).
Proof. intros H. unfold registry_remove. destruct (get c (reg s)); [apply ND_remove_locked|]; exact H. Qed.
Lemma ND_register k c r s : ND s -> ND (registry_register k c r s).
Proof.
  intros H. unfold registry_register.
  assert (Hs1 : forall s1, ND s1 ->
    ND (let s2 := match get c (reg s1) with Some r' => remove_locked c r' s1 | None => s1 end in
        let s3 := with_reg s2 (set c r (reg s2)) in
        if c_auth r && (0 <? c_cid r) then with_idx s3 (set (c_cid r) c (idx s3)) else s3)).
  { intros s1 H1. cbn zeta.
    set (s2 := match get c (reg s1) with Some r' => remove_locked c r' s1 | None => s1 end).
    assert (H2 : ND s2) by (unfold s2; destruct (get c (reg s1)); [apply ND_remove_locked|]; exact H1).
    destruct H2 as [A B]. destruct (c_auth r && (0 <? c_cid r)); unfold ND, with_idx, with_reg; proj; split;
      try (apply nodup_set; assumption); assumption. }
  destruct ((0 <? maxCtl k) && (maxCtl k <=? size (reg s))).
  - destruct (find_oldest (reg s)) as [[o ro]|]; [|exact H]. apply Hs1. apply ND_remove_locked. exact H.
  - apply Hs1. exact H.
Qed.

(* ---- handleHandshake, section A: afterwards everyone else is as before, and c itself is "pending" ---- *)
Lemma phaseA_record v k c kind x s s2 r' :
  hs_phaseA v k c kind x s = (s2, Some r') -> ok_kind kind x = true -> c_auth r' = true /\ c_cid r' = x.
Proof.
  unfold hs_phaseA, hs_mutated, ok_kind. intros H Hok.
  destruct (match get c (reg s) with
            | Some _ => Some s
            | None => if mem c (sess s) then Some (bump (registry_register k c (new_ctl s 0) s)) else None
            end) as [s1|]; [|discriminate].
  destruct (get c (reg s1)) as [r|]; [|discriminate]. rewrite Hok in H. injection H as _ <-. split; reflexivity.
Qed.

Lemma JP_phaseA P k c kind x s : ND s -> JP P s ->
  ND (fst (hs_phaseA Current k c kind x s)) /\
  JP (fun c' => c' = c \/ P c') (fst (hs_phaseA Current k c kind x s)) /\
  (ok_kind kind x = false \/ snd (hs_phaseA Current k c kind x s) = None -> JP P (fst (hs_phaseA Current k c kind x s))).
Proof.
  intros Hnd H. unfold hs_phaseA.
  set (found := match get c (reg s) with
                | Some _ => Some s
                | None => if mem c (sess s) then Some (bump (registry_register k c (new_ctl s 0) s)) else None
                end).
  assert (Hf : match found with Some s1 => ND s1 /\ JP P s1 | None => True end).
  { unfold found. destruct (get c (reg s)); [split; assumption|]. destruct (mem c (sess s)); [|exact I]. split.
    - apply (ND_register k c (new_ctl s 0) s Hnd).
    - apply JP_bump. apply JP_register_dead; [exact H|reflexivity]. }
  destruct found as [s1|].
  2:{ cbn [fst snd]. split; [exact Hnd|]. split; [apply (JP_weaken P); [intros; right; assumption|exact H]|intros _; exact H]. }
  destruct Hf as [[N1 N2] H1].
  destruct (get c (reg s1)) as [r|] eqn:Er.
  2:{ cbn [fst snd]. split; [split; assumption|]. split; [apply (JP_weaken P); [intros; right; assumption|exact H1]|intros _; exact H1]. }
  cbn [fst snd]. set (r' := hs_mutated r kind x).
  assert (Hs2 : reconcile Current c (with_reg s1 (set c r' (reg s1)))
                = with_idx (with_reg s1 (set c r' (reg s1))) (drop_stale c r' (idx s1))).
  { unfold reconcile. cbn [reconciles]. unfold with_reg, with_idx. proj. rewrite get_set_same. reflexivity. }
  rewrite Hs2.
  assert (Hmain : forall Q : N -> Prop, (forall c', P c' -> Q c') -> (Q c \/ r' = r) ->
            JP Q (with_idx (with_reg s1 (set c r' (reg s1))) (drop_stale c r' (idx s1)))).
  { intros Q HQ Hc. unfold JP, with_idx, with_reg. proj. intros c2 r2 G1 G2 G3 G4 G5.
    destruct (N.eq_dec c2 c) as [->|Hne].
    - rewrite get_set_same in G1. injection G1 as <-. destruct Hc as [Hq|Heq]; [right; exact Hq|].
      rewrite Heq in *. destruct (H1 c r Er G2 G3 G4 G5) as [Hi|Hp]; [left|right; apply HQ; exact Hp].
      unfold drop_stale. rewrite (get_filter _ _ _ N2), Hi. cbn [fst snd]. rewrite G2, !N.eqb_refl. reflexivity.
    - rewrite get_set_other in G1 by exact Hne. destruct (H1 c2 r2 G1 G2 G3 G4 G5) as [Hi|Hp]; [left|right; apply HQ; exact Hp].
      unfold drop_stale. rewrite (get_filter _ _ _ N2), Hi. cbn [fst snd].
      assert (E : (c2 =? c) = false) by (apply N.eqb_neq; exact Hne). rewrite E. reflexivity. }
  split; [|split].
  - unfold ND, with_idx, with_reg. proj. split; [apply nodup_set; exact N1|unfold drop_stale; apply nodup_filter; exact N2].
  - apply Hmain; [intros; right; assumption|left; left; reflexivity].
  - intros [Hk|Hk]; [|discriminate]. apply Hmain; [auto|right]. unfold r', hs_mutated. unfold ok_kind in Hk. rewrite Hk. reflexivity.
Qed.

(* a pending connection whose transport is closed or refuses writes needs no index entry *)
Lemma JP_drop_dead P c s : JP (fun c' => c' = c \/ P c') s -> mem c (closed s) = true \/ mem c (wfail s) = true -> JP P s.
Proof.
  intros H Hd c' r H1 H2 H3 H4 H5. destruct (H c' r H1 H2 H3 H4 H5) as [Hi|[->|Hp]]; [left; exact Hi| |right; exact Hp].
  destruct Hd as [Hd|Hd]; congruence.
Qed.

(* UpdateAuth (Current: evicts the previous holder and indexes c in ONE critical section) ends the pending state of c *)
Lemma JP_update_auth P c X s : ND s -> JP (fun c' => c' = c \/ P c') s -> 0 < X -> JP P (update_auth Current c X s).
Proof.
  intros Hnd H HX. unfold update_auth. destruct (get c (reg s)) as [r0|] eqn:E0.
  2:{ intros c' r H1 H2 H3 H4 H5. destruct (H c' r H1 H2 H3 H4 H5) as [Hi|[->|Hp]]; [left; exact Hi|congruence|right; exact Hp]. }
  cbn [evicts]. set (s1 := evict_holder X c s).
  assert (N1 : ND s1).
  { unfold s1, evict_holder. destruct (get X (idx s)) as [o|]; [|exact Hnd]. destruct (o =? c); [exact Hnd|apply ND_registry_remove; exact Hnd]. }
  assert (H1 : JP (fun c' => c' = c \/ P c') s1).
  { unfold s1, evict_holder. destruct (get X (idx s)) as [o|]; [|exact H]. destruct (o =? c); [exact H|apply JP_registry_remove; exact H]. }
  assert (Ec : get c (reg s1) = Some r0).
  { unfold s1, evict_holder. destruct (get X (idx s)) as [o|]; [|exact E0]. destruct (o =? c) eqn:Eo; [exact E0|].
    apply N.eqb_neq in Eo. rewrite reg_registry_remove, get_del_other; [exact E0|]. intros Heq. apply Eo. symmetry. exact Heq. }
  (* nobody else that is live claims X any more, unless it is itself pending *)
  assert (HE : forall c2 r2, c2 <> c -> get c2 (reg s1) = Some r2 -> c_auth r2 = true -> 0 < c_cid r2 ->
                 mem c2 (closed s1) = false -> mem c2 (wfail s1) = false -> c_cid r2 = X -> P c2).
  { intros c2 r2 Hne G1 G2 G3 G4 G5 G6.
    assert (Hold : get c2 (reg s) = Some r2 /\ mem c2 (closed s) = false /\ mem c2 (wfail s) = false).
    { unfold s1, evict_holder in G1, G4, G5. destruct (get X (idx s)) as [o|]; [|auto]. destruct (o =? c); [auto|].
      rewrite reg_registry_remove in G1. apply get_del_Some in G1 as [_ G1]. split; [exact G1|]. split.
      - unfold registry_remove in G4. destruct (get o (reg s)); [|exact G4]. rewrite closed_remove_locked in G4. exact (mem_add_false _ _ _ G4).
      - unfold registry_remove in G5. destruct (get o (reg s)); exact G5. }
    destruct Hold as [O1 [O2 O3]]. destruct (H c2 r2 O1 G2 G3 O2 O3) as [Hi|[->|Hp]]; [|congruence|exact Hp].
    exfalso. rewrite G6 in Hi. unfold s1, evict_holder in G1. rewrite Hi in G1.
    assert (E : (c2 =? c) = false) by (apply N.eqb_neq; exact Hne). rewrite E in G1.
    rewrite reg_registry_remove, get_del_same in G1. discriminate. }
  unfold update_auth_core. rewrite Ec. cbn [reconciles]. unfold JP, with_idx, with_reg. proj.
  destruct N1 as [N1 N2].
  intros c2 r2 G1 G2 G3 G4 G5. destruct (N.eq_dec c2 c) as [->|Hne].
  - rewrite get_set_same in G1. injection G1 as <-. cbn [c_cid]. left. apply get_set_same.
  - rewrite get_set_other in G1 by exact Hne. destruct (N.eq_dec (c_cid r2) X) as [Hx|Hx].
    + right. exact (HE c2 r2 Hne G1 G2 G3 G4 G5 Hx).
    + destruct (H1 c2 r2 G1 G2 G3 G4 G5) as [Hi|[->|Hp]]; [left|congruence|right; exact Hp].
      rewrite get_set_other by exact Hx. unfold drop_stale. rewrite (get_filter _ _ _ N2), Hi. cbn [fst snd].
      assert (E : (c2 =? c) = false) by (apply N.eqb_neq; exact Hne). rewrite E. reflexivity.
Qed.

(* ------------------------------------------------------------------------------------------ *)
(* sequential histories of the production operation set                                        *)
(* ------------------------------------------------------------------------------------------ *)
Lemma J_handshake k c kind x isCtl s :
  Inv s -> J s -> isCtl || negb (ok_kind kind x) = true -> J (fst (handshake Current k c kind x isCtl s)).
Proof.
  intros Hinv HJ Hprod. rewrite handshake_seq_eq. unfold handshake_seq.
  destruct (JP_phaseA (fun _ => False) k c kind x s (ND_of_Inv s Hinv) HJ) as [N2 [A1 A2]].
  pose proof (phaseA_record Current k c kind x s) as Hrec.
  destruct (hs_phaseA Current k c kind x s) as [s2 [r'|]]; cbn [fst snd] in *.
  2:{ apply A2. right. reflexivity. }
  destruct (hs_rejected kind x) eqn:Erej.
  { cbn [fst]. apply A2. left. unfold hs_rejected in Erej. unfold ok_kind. apply andb_true_iff in Erej. destruct Erej as [E _].
    apply negb_true_iff in E. exact E. }
  destruct (negb (write_ok c s2)) eqn:Ew.
  { cbn [fst]. apply (JP_drop_dead _ c); [exact A1|]. apply negb_true_iff in Ew. unfold write_ok in Ew.
    apply negb_false_iff in Ew. apply orb_true_iff in Ew. exact Ew. }
  destruct (hs_block kind x isCtl r') eqn:Eb; cbn [fst].
  - unfold hs_block in Eb. apply andb_true_iff in Eb. destruct Eb as [_ Ex]. apply N.ltb_lt in Ex.
    unfold hs_phaseB. apply JP_update_auth; [| |exact Ex].
    + destruct (hs_old c (c_cid r') s2); [apply ND_registry_remove|]; exact N2.
    + destruct (hs_old c (c_cid r') s2); [apply JP_registry_remove|]; exact A1.
  - destruct (ok_kind kind x) eqn:Eok; [|apply A2; left; reflexivity].
    exfalso. destruct (Hrec s2 r' eq_refl eq_refl) as [Ra Rc]. unfold hs_block in Eb. unfold ok_kind in Eok.
    rewrite Eok, Ra, Rc in Eb. rewrite orb_false_r in Hprod. rewrite Hprod in Eb.
    apply andb_true_iff in Eok. destruct Eok as [_ Ex]. rewrite Ex in Eb. discriminate.
Qed.

(* every operation other than a handshake, with any set P of excepted (pending) connections *)
Lemma JP_step_nonhs P k s o : JP P s -> production_op o = true ->
  match o with Handshake _ _ _ _ => False | _ => True end -> JP P (fst (step Current k s o)).
Proof.
  intros HJ Hp Hn. destruct o as [c|c kind x isCtl|c|c|c|c|x newc| |d|c pre|c x|c t|c|c pre|c x0]; cbn [step production_op] in *.
  - destruct ((0 <? maxConn k) && (maxConn k <=? N.of_nat (length (sess s)))); [exact HJ|]. destruct (mem c (streams s)); exact HJ.
  - contradiction.
  - destruct (get c (reg s)) as [r|] eqn:E; [|exact HJ]. cbn [fst]. unfold JP, with_reg. proj.
    apply (JPc_touch _ _ _ _ _ c r); [exact HJ|exact E|reflexivity|reflexivity].
  - apply JP_close_conn. exact HJ.
  - apply JP_registry_remove. exact HJ.
  - apply JP_unregister. exact HJ.
  - apply JP_kick. exact HJ.
  - apply JP_sweep. exact HJ.
  - exact HJ.
  - destruct (mem c (sess s) && negb (mem c (closed s)) && match get c (reg s) with None => true | Some _ => false end); [|exact HJ].
    cbn [fst]. apply N.eqb_eq in Hp. subst pre. apply JP_bump. apply JP_register_dead; [exact HJ|reflexivity].
  - discriminate.
  - destruct (mem c (sess s)); [|exact HJ]. cbn [fst]. exact (JP_unregister _ c s HJ).
  - destruct (mem c (streams s)); [|exact HJ]. cbn [fst]. unfold JP. proj.
    apply (JPc_shrink _ _ _ (closed s) (wfail s)); [exact HJ|auto|intros c1 Hc1; exact (mem_add_false _ _ _ Hc1)].
  - destruct (mem c (sess s) && negb (mem c (closed s))); [|exact HJ].
    cbn [fst]. apply N.eqb_eq in Hp. subst pre. apply JP_bump. apply JP_rereg_dead; [exact HJ|reflexivity].
  - destruct (mem c (sess s) && negb (mem c (closed s))); [|exact HJ].
    cbn [fst]. apply JP_bump. apply JP_rereg_dead; [exact HJ|reflexivity].
Qed.

Theorem J_step k s o : Inv s -> J s -> production_op o = true -> J (fst (step Current k s o)).
Proof.
  intros Hinv HJ Hp. destruct o as [c|c kind x isCtl|c|c|c|c|x newc| |d|c pre|c x|c t|c|c pre|c x0];
    try (apply JP_step_nonhs; [exact HJ|exact Hp|exact I]).
  cbn [step production_op] in *. apply J_handshake; assumption.
Qed.

Lemma J_init : J init.
Proof. intros c r H. discriminate. Qed.

Theorem J_run k ops : forallb production_op ops = true -> forall s, Inv s -> J s -> Inv (run Current k s ops) /\ J (run Current k s ops).
Proof.
  induction ops as [|o t IH]; intros Hp s Hinv HJ; [split; assumption|]. cbn [forallb] in Hp. apply andb_true_iff in Hp. destruct Hp as [Ho Ht].
  cbn [run fold_left]. apply IH; [exact Ht|apply inv_step; exact Hinv|apply J_step; assumption].
Qed.

(* connection c is a live authenticated control connection of client x in state s *)
Definition live_as (s : st) (x c : N) : Prop :=
  exists r, by_conn s c = Some r /\ c_auth r = true /\ c_cid r = x /\ 0 < x /\ mem c (closed s) = false /\ mem c (wfail s) = false.

Lemma J_one_live s x c1 c2 : J s -> live_as s x c1 -> live_as s x c2 -> c1 = c2 /\ by_client s x = Some c1.
Proof.
  intros HJ [r1 [A1 [A2 [A3 [A4 [A5 A6]]]]]] [r2 [B1 [B2 [B3 [B4 [B5 B6]]]]]]. unfold by_conn, by_client in *.
  assert (H1 : get (c_cid r1) (idx s) = Some c1) by (destruct (HJ c1 r1 A1 A2 ltac:(rewrite A3; exact A4) A5 A6) as [H|[]]; exact H).
  assert (H2 : get (c_cid r2) (idx s) = Some c2) by (destruct (HJ c2 r2 B1 B2 ltac:(rewrite B3; exact B4) B5 B6) as [H|[]]; exact H).
  rewrite A3 in H1. rewrite B3 in H2. split; [congruence|exact H1].
Qed.

Theorem one_live_per_client k ops x c1 c2 :
  forallb production_op ops = true ->
  live_as (run Current k init ops) x c1 -> live_as (run Current k init ops) x c2 ->
  c1 = c2 /\ by_client (run Current k init ops) x = Some c1.
Proof. intros Hp. apply J_one_live. exact (proj2 (J_run k ops Hp init inv_init J_init)). Qed.

(* ------------------------------------------------------------------------------------------ *)
(* every interleaving of the lock sections (Model/RegistryMicro.mstep)                          *)
(* ------------------------------------------------------------------------------------------ *)
(* the connection whose authenticating login this thread has between its auth section and its UpdateAuth section *)
Definition pend (l : lo) : option N :=
  match fst l with
  | Some (KW c _ kind x _) => if ok_kind kind x then Some c else None
  | Some (KB1 c _) | Some (KB2 c _ _) | Some (KB3 c _) => Some c
  | _ => None
  end.
Definition Pend (ls : list lo) (c : N) : Prop := exists l, In l ls /\ pend l = Some c.

Definition local_ok (l : lo) : Prop :=
  forallb production_op (snd l) = true /\
  match fst l with
  | Some (KW c r' kind x isCtl) => ok_kind kind x = true -> isCtl = true /\ c_auth r' = true /\ c_cid r' = x
  | Some (KB1 _ X) | Some (KB2 _ X _) | Some (KB3 _ X) => 0 < X
  | _ => True
  end.

Lemma JP_retain (P Q : N -> Prop) l s : JP P s -> (forall c, P c -> Q c \/ pend l = Some c) -> (forall c, pend l = Some c -> Q c) -> JP Q s.
Proof.
  intros H F1 F2. apply (JP_weaken P); [|exact H]. intros c Hc. destruct (F1 c Hc) as [Hq|Hp]; [exact Hq|exact (F2 c Hp)].
Qed.

Lemma mstep_JP k l sh (P Q : N -> Prop) :
  MG sh -> JP P (g sh) -> local_ok l ->
  (forall c, P c -> Q c \/ pend l = Some c) -> (forall c, pend (fst (mstep k l sh)) = Some c -> Q c) ->
  JP Q (g (snd (mstep k l sh))) /\ local_ok (fst (mstep k l sh)).
Proof.
  intros Hm HJ [Lp Lk] F1 F2. pose proof (ND_of_M _ _ Hm) as Hnd.
  destruct l as [[ct|] prog]; unfold mstep in *; cbn [fst snd] in *.
  - destruct ct as [c r' kind x isCtl|c X|c X o|c X|c|c|c]; cbn [fst snd] in *.
    + (* the response write *)
      destruct (hs_rejected kind x || negb (write_ok c (g sh)) || negb (hs_block kind x isCtl r')) eqn:Ec; cbn [fst snd g] in *.
      * split; [|split; [exact Lp|exact I]].
        unfold pend in F1. cbn [fst] in F1. destruct (ok_kind kind x) eqn:Eok.
        -- destruct (Lk eq_refl) as [Li [La Lc]].
           assert (Hdead : mem c (closed (g sh)) = true \/ mem c (wfail (g sh)) = true).
           { unfold hs_rejected, hs_block in Ec. unfold ok_kind in Eok. rewrite Eok, Li, La, Lc in Ec.
             apply andb_true_iff in Eok. destruct Eok as [_ Ex]. rewrite Ex in Ec. cbn [negb andb orb] in Ec.
             rewrite orb_false_r in Ec. apply negb_true_iff in Ec. unfold write_ok in Ec. apply negb_false_iff in Ec.
             apply orb_true_iff in Ec. exact Ec. }
           apply (JP_drop_dead _ c); [|exact Hdead]. apply (JP_weaken P); [|exact HJ].
           intros c' Hc'. destruct (F1 c' Hc') as [Hq|Hp]; [right; exact Hq|left; congruence].
        -- apply (JP_weaken P); [|exact HJ]. intros c' Hc'. destruct (F1 c' Hc') as [Hq|Hp]; [exact Hq|discriminate].
      * split.
        -- apply (JP_weaken P); [|exact HJ]. intros c' Hc'. destruct (F1 c' Hc') as [Hq|Hp]; [exact Hq|].
           apply F2. unfold pend in *. cbn [fst] in *. destruct (ok_kind kind x); [exact Hp|discriminate].
        -- split; [exact Lp|]. cbn [fst]. apply orb_false_iff in Ec. destruct Ec as [_ Eb]. apply negb_false_iff in Eb.
           unfold hs_block in Eb. apply andb_true_iff in Eb. destruct Eb as [_ Ex]. apply N.ltb_lt. exact Ex.
    + destruct (hs_old c X (g sh)); cbn [fst snd g] in *; (split; [|split; [exact Lp|exact Lk]]);
        (apply (JP_weaken P); [|exact HJ]; intros c' Hc'; destruct (F1 c' Hc') as [Hq|Hp]; [exact Hq|apply F2; exact Hp]).
    + cbn [g]. split; [|split; [exact Lp|exact Lk]]. apply JP_registry_remove.
      apply (JP_weaken P); [|exact HJ]. intros c' Hc'. destruct (F1 c' Hc') as [Hq|Hp]; [exact Hq|apply F2; exact Hp].
    + cbn [g]. split; [|split; [exact Lp|exact I]]. apply N.ltb_lt in Lk as Lk'. rewrite Lk'.
      apply JP_update_auth; [exact Hnd| |exact Lk]. apply (JP_weaken P); [|exact HJ].
      intros c' Hc'. destruct (F1 c' Hc') as [Hq|Hp]; [right; exact Hq|left]. unfold pend in Hp. cbn [fst] in Hp. congruence.
    + cbn [g]. split; [|split; [exact Lp|exact I]]. unfold JP, with_closed. proj.
      apply (JPc_shrink _ _ _ (closed (g sh)) (wfail (g sh))); [|intros c1 Hc1; exact (mem_add_false _ _ _ Hc1)|auto].
      apply (JPc_weaken P); [|exact HJ]. intros c' Hc'. destruct (F1 c' Hc') as [Hq|Hp]; [exact Hq|discriminate].
    + cbn [g]. split; [|split; [exact Lp|exact I]]. apply JP_registry_remove.
      apply (JP_weaken P); [|exact HJ]. intros c' Hc'. destruct (F1 c' Hc') as [Hq|Hp]; [exact Hq|discriminate].
    + cbn [g]. split; [|split; [exact Lp|exact I]]. apply JP_tunnel_remove.
      apply (JP_weaken P); [|exact HJ]. intros c' Hc'. destruct (F1 c' Hc') as [Hq|Hp]; [exact Hq|discriminate].
  - assert (HPQ : forall c', P c' -> Q c') by (intros c' Hc'; destruct (F1 c' Hc') as [Hq|Hp]; [exact Hq|discriminate]).
    destruct prog as [|o t]; [cbn [fst snd g]; split; [apply (JP_weaken P); assumption|split; [exact Lp|exact I]]|].
    cbn [forallb] in Lp. apply andb_true_iff in Lp. destruct Lp as [Lo Lt].
    destruct o as [c|c kind x isCtl|c|c|c|c|x newc| |d|c pre|c x|c t0|c|c pre|c x0];
      try (cbn [fst snd g]; split; [apply (JP_weaken P); [exact HPQ|]; apply JP_step_nonhs; [exact HJ|exact Lo|exact I]|split; [exact Lt|exact I]]).
    + (* a handshake packet is dispatched *)
      destruct (mem c (closed (g sh))) eqn:Ecl; [cbn [fst snd g]; split; [apply (JP_weaken P); assumption|split; [exact Lt|exact I]]|].
      destruct (JP_phaseA P k c kind x (g sh) Hnd HJ) as [N2 [A1 A2]].
      pose proof (phaseA_record Current k c kind x (g sh)) as Hrec.
      destruct (hs_phaseA Current k c kind x (g sh)) as [s2 [r'|]]; cbn [fst snd g] in *.
      * split.
        -- destruct (ok_kind kind x) eqn:Eok.
           ++ apply (JP_weaken (fun c' => c' = c \/ P c')); [|exact A1]. intros c' [->|Hc']; [|exact (HPQ c' Hc')].
              apply F2. unfold pend. cbn [fst]. rewrite Eok. reflexivity.
           ++ apply (JP_weaken P); [exact HPQ|]. apply A2. left. reflexivity.
        -- split; [exact Lt|]. cbn [fst]. intros Eok. cbn [production_op] in Lo. rewrite Eok in Lo. cbn [negb] in Lo. rewrite orb_false_r in Lo.
           destruct (Hrec s2 r' eq_refl Eok) as [Ra Rc]. auto.
      * split; [apply (JP_weaken P); [exact HPQ|]; apply A2; right; reflexivity|split; [exact Lt|exact I]].
    + (* CloseConnection: the session-map section *)
      destruct (mem c (sess (g sh))); cbn [fst snd g]; (split; [apply (JP_weaken P); [exact HPQ|exact HJ]|split; [exact Lt|exact I]]).
Qed.

(* ---- threads ---- *)
Lemma In_upd_nth_inv {A} i (x : A) ls a : In a (upd_nth i x ls) -> a = x \/ In a ls.
Proof.
  revert i. induction ls as [|h t IH]; intros [|j]; cbn; try tauto.
  - intros [H|H]; auto.
  - intros [H|H]; [auto|]. destruct (IH j H); auto.
Qed.

Lemma In_upd_nth_new {A} i (x old : A) ls : nth_error ls i = Some old -> In x (upd_nth i x ls).
Proof.
  revert i. induction ls as [|h t IH]; intros [|j]; cbn; try discriminate.
  - intros _. left. reflexivity.
  - intros H. right. exact (IH j H).
Qed.

Lemma In_upd_nth_keep {A} i (x old : A) ls a : nth_error ls i = Some old -> In a ls -> In a (upd_nth i x ls) \/ a = old.
Proof.
  revert i. induction ls as [|h t IH]; intros [|j]; cbn; try discriminate; try tauto.
  - intros H [Ha|Ha]; [right; congruence|left; right; exact Ha].
  - intros H [Ha|Ha]; [left; left; exact Ha|]. destruct (IH j H Ha); [left; right; assumption|right; assumption].
Qed.

Record SJ (k : cfg) (s : gst * list lo) : Prop := {
  sj_m : MG (fst s);
  sj_j : JP (Pend (snd s)) (g (fst s));
  sj_l : Forall local_ok (snd s) }.

Theorem SJ_step k s i : SJ k s -> SJ k (sys_step gst lo (fun l sh => mstep k l sh) s i).
Proof.
  intros [Hm Hj Hl]. unfold sys_step. destruct (nth_error (snd s) i) as [l|] eqn:El; [|split; assumption].
  assert (Hlok : local_ok l) by (rewrite Forall_forall in Hl; apply Hl; apply (nth_error_In _ _ El)).
  pose proof (MG_mstep k l (fst s) Hm) as Hm'.
  pose proof (mstep_JP k l (fst s) (Pend (snd s)) (Pend (upd_nth i (fst (mstep k l (fst s))) (snd s))) Hm Hj Hlok) as HJ'.
  destruct (mstep k l (fst s)) as [l' sh'] eqn:Es. cbn [fst snd] in *.
  destruct HJ' as [HJ' Hl'].
  - intros c [a [Ha Hp]]. destruct (In_upd_nth_keep i l' l (snd s) a El Ha) as [Hin|Heq].
    + left. exists a. split; assumption.
    + right. subst a. exact Hp.
  - intros c Hp. exists l'. split; [apply (In_upd_nth_new i l' l); exact El|exact Hp].
  - split; cbn [fst snd]; [exact Hm'|exact HJ'|].
    rewrite Forall_forall in *. intros a Ha. destruct (In_upd_nth_inv _ _ _ _ Ha) as [->|Hin]; [exact Hl'|apply Hl; exact Hin].
Qed.

Definition start (progs : list (list op)) : gst * list lo := (ginit, map (fun p => (None, p)) progs).

Lemma SJ_start k progs : Forall (fun p => forallb production_op p = true) progs -> SJ k (start progs).
Proof.
  intros Hp. split; cbn [fst snd start].
  - exact MG_init.
  - intros c r H. discriminate.
  - rewrite Forall_forall in *. intros l Hl. apply in_map_iff in Hl. destruct Hl as [p [<- Hin]]. split; [apply Hp; exact Hin|exact I].
Qed.

Theorem SJ_all_interleavings k progs sched :
  Forall (fun p => forallb production_op p = true) progs ->
  SJ k (Threads.run gst lo (fun l sh => mstep k l sh) (start progs) sched).
Proof.
  intros Hp. apply (inv_all_schedules gst lo (fun l sh => mstep k l sh) (SJ k)); [|apply SJ_start; exact Hp].
  intros s i Hs. apply SJ_step. exact Hs.
Qed.

(* once every login has returned (no thread is between its auth section and its UpdateAuth section) J holds *)
Definition quiet (ls : list lo) : Prop := forall l, In l ls -> pend l = None.

Theorem one_live_per_client_all_interleavings k progs sched x c1 c2 :
  Forall (fun p => forallb production_op p = true) progs ->
  let fin := Threads.run gst lo (fun l sh => mstep k l sh) (start progs) sched in
  quiet (snd fin) ->
  live_as (g (fst fin)) x c1 -> live_as (g (fst fin)) x c2 -> c1 = c2 /\ by_client (g (fst fin)) x = Some c1.
Proof.
  intros Hp fin Hq. apply J_one_live. destruct (SJ_all_interleavings k progs sched Hp) as [_ Hj _]. fold fin in Hj.
  apply (JP_weaken (Pend (snd fin))); [|exact Hj]. intros c [l [Hin Hpd]]. rewrite (Hq l Hin) in Hpd. discriminate.
Qed.

(* ------------------------------------------------------------------------------------------ *)
(* witnesses                                                                                   *)
(* ------------------------------------------------------------------------------------------ *)
Definition live_asb (s : st) (x c : N) : bool :=
  match get c (reg s) with
  | Some r => c_auth r && (c_cid r =? x) && (0 <? x) && negb (mem c (closed s)) && negb (mem c (wfail s))
  | None => false
  end.

(* sections B2;B3 of handleHandshake run with a snapshot `old` of the index taken EARLIER (seeded change C07-13 takes it before
   the response write) *)
Definition hs_phaseB_stale (v : variant) (c X : N) (old : option N) (s : st) : st :=
  update_auth v c X (match old with Some o => registry_remove o s | None => s end).

(* login of client 7 on connection 1 parked after its response write with the stale snapshot, login on connection 2 completes,
   login 1 resumes: final state *)
Definition stale_snapshot_final (v : variant) : st :=
  let s0 := run v k0 init [Accept 1; Accept 2] in
  let sA := fst (hs_phaseA v k0 1 0 7 s0) in
  let old := hs_old 1 7 sA in
  let sZ := fst (step v k0 sA (Handshake 2 0 7 true)) in
  hs_phaseB_stale v 1 7 old sZ.

(* the tree as it is (Head2: GetByClientID / Remove(old) / UpdateAuth are three critical sections): with the stale-snapshot order
   BOTH connections stay live and authenticated as client 7 *)
Lemma stale_snapshot_refuted :
  live_asb (stale_snapshot_final Head2) 7 1 = true /\ live_asb (stale_snapshot_final Head2) 7 2 = true /\
  counts (stale_snapshot_final Head2) = (2, 2, 0).
Proof. vm_compute. repeat split. Qed.

(* with UpdateAuth evicting the previous holder in its own critical section even that order leaves exactly one *)
Lemma stale_snapshot_repaired :
  live_asb (stale_snapshot_final Current) 7 1 = true /\ live_asb (stale_snapshot_final Current) 7 2 = false /\
  by_client (stale_snapshot_final Current) 7 = Some 1 /\ mem 2 (closed (stale_snapshot_final Current)) = true.
Proof. vm_compute. repeat split. Qed.

(* the lock-section race of the tree as it is: both logins read the index (B1: nobody holds client 7) before either writes it *)
Definition b1_race_final (v : variant) : st :=
  let s0 := run v k0 init [Accept 1; Accept 2] in
  let s1 := fst (hs_phaseA v k0 1 0 7 s0) in
  let s2 := fst (hs_phaseA v k0 2 0 7 s1) in
  match hs_old 1 7 s2, hs_old 2 7 s2 with
  | None, None => update_auth v 2 7 (update_auth v 1 7 s2)
  | _, _ => s2
  end.

Lemma head_lock_section_race_refuted :
  live_asb (b1_race_final Head2) 7 1 = true /\ live_asb (b1_race_final Head2) 7 2 = true /\ by_client (b1_race_final Head2) 7 = Some 2.
Proof. vm_compute. repeat split. Qed.

Lemma lock_section_race_repaired :
  live_asb (b1_race_final Current) 7 1 = false /\ live_asb (b1_race_final Current) 7 2 = true /\ by_client (b1_race_final Current) 7 = Some 2.
Proof. vm_compute. repeat split. Qed.

(* non-vacuity of the interleaving theorem: two goroutines, each accepts a connection and logs in as client 7, their sections
   strictly alternating (both read the index before either writes it) *)
Definition two_logins : list (list op) := [[Accept 1; Handshake 1 0 7 true]; [Accept 2; Handshake 2 0 7 true]].
Definition alternating : list nat := [0; 1; 0; 1; 0; 1; 0; 1; 0; 1; 0; 1; 0; 1]%nat.
Definition two_logins_final := Threads.run gst lo (fun l sh => mstep k0 l sh) (start two_logins) alternating.

Lemma two_logins_demo :
  forallb (fun l => match pend l with None => true | Some _ => false end) (snd two_logins_final) = true /\
  forallb (fun l => match snd l with [] => true | _ => false end) (snd two_logins_final) = true /\
  live_asb (g (fst two_logins_final)) 7 1 = false /\ live_asb (g (fst two_logins_final)) 7 2 = true /\
  by_client (g (fst two_logins_final)) 7 = Some 2 /\ mem 1 (closed (g (fst two_logins_final))) = true /\
  counts (g (fst two_logins_final)) = (2, 1, 0).
Proof. vm_compute. repeat split. Qed.

(* sequential non-vacuity: re-login, kick, sweep, close — and the one live connection of each client is the indexed one *)
Definition prod_demo_ops : list op :=
  [Accept 1; Accept 2; Accept 3; Handshake 1 0 7 true; Handshake 2 0 7 true; Handshake 3 0 8 true; Heartbeat 2; Tick 1; Sweep; Kick 8 9; CloseConn 1].
Lemma prod_demo :
  forallb production_op prod_demo_ops = true /\
  live_asb (run Current k0 init prod_demo_ops) 7 2 = true /\ live_asb (run Current k0 init prod_demo_ops) 7 1 = false /\
  by_client (run Current k0 init prod_demo_ops) 7 = Some 2 /\ by_client (run Current k0 init prod_demo_ops) 8 = None.
Proof. vm_compute. repeat split. Qed.

(* what the excluded operations do: a tunnel-type authenticating login leaves a second live authenticated record of the client *)
Lemma excluded_ops_leave_second_record :
  let s := run Current k0 init [Accept 1; Accept 2; Handshake 1 0 7 true; Handshake 2 0 7 false] in
  live_asb s 7 1 = true /\ live_asb s 7 2 = true /\ by_client s 7 = Some 1.
Proof. vm_compute. repeat split. Qed.

(* ------------------------------------------------------------------------------------------ *)
(* a control record that outlives its base record (late registration racing CloseConnection)   *)
(* ------------------------------------------------------------------------------------------ *)
Lemma inv_phaseA_late k c kind x s : Inv s -> Inv (fst (hs_phaseA_late Current k c kind x s)).
Proof.
  intros Hinv. unfold hs_phaseA_late.
  set (s1 := match get c (reg s) with Some _ => s | None => bump (registry_register k c (new_ctl s 0) s) end).
  assert (H1 : Inv s1).
  { unfold s1. destruct (get c (reg s)) eqn:E; [exact Hinv|]. apply inv_bump. apply inv_register; [exact Hinv|exact E|]. cbn. intros H. discriminate. }
  destruct (get c (reg s1)) as [r|] eqn:Er; [|exact H1]. cbn [fst].
  destruct H1 as [A B C]. unfold reconcile. cbn [reconciles]. unfold with_reg at 1. proj. rewrite get_set_same.
  unfold with_idx, with_reg. split; proj.
  - apply nodup_set. exact A.
  - unfold drop_stale. apply nodup_filter. exact B.
  - apply OK1_mutate_reconcile; assumption.
Qed.

(* the interleaving of seeded C07-16: the stale sweep / a kick-then-close / the adapter closes connection 1 while a late handshake of
   connection 1 is between "base record fetched" and "control record registered"; the final CloseConnection(1) still cleans up *)
Definition late_register_state : st :=
  fst (fst (step_inj Current k0 (run Current k0 init [Accept 1]) (Handshake 1 0 7 true) (Some (9, CloseConn 1)))).
Lemma late_register_demo :
  mem 1 (sess late_register_state) = false /\ (exists r, by_conn late_register_state 1 = Some r /\ c_auth r = true) /\
  mem 1 (closed late_register_state) = true /\ counts late_register_state = (0, 1, 0) /\
  by_conn (close_conn 1 late_register_state) 1 = None /\ counts (close_conn 1 late_register_state) = (0, 0, 0).
Proof. vm_compute. repeat split. eexists. split; reflexivity. Qed.

(* Proofs/SideC19.v — side conditions over values regenerated from /repo (Gen/C19.v), re-proved on every run *)
From TX Require Import Model.Domain Gen.C19.
From Coq Require Import Lia.

Fixpoint is_prefix (p k : list N) : bool :=
  match p, k with
  | [], _ => true
  | x :: p', y :: k' => N.eqb x y && is_prefix p' k'
  | _ :: _, [] => false
  end.

Definition class_prefixes : list (list N) := [KeyIndexPrefix; KeyMappingPrefix; KeyClientPrefix; KeyRemovalPrefix].
Definition exact_keys : list (list N) := [KeyNextID; KeyMappingList].

Fixpoint pairwise {A} (f : A -> A -> bool) (l : list A) : bool :=
  match l with [] => true | x :: r => forallb (fun y => f x y && f y x) r && pairwise f r end.

(* the model keeps index, records, per-client lists, removal guards and the counter in separate maps: no key of one
   class can be a key of another (no class prefix is a prefix of another class prefix or of an exact key) *)
Lemma key_classes_disjoint :
  pairwise (fun a b => negb (is_prefix a b)) class_prefixes = true /\
  forallb (fun k => forallb (fun p => negb (is_prefix p k)) class_prefixes) exact_keys = true /\
  pairwise (fun a b => negb (name_eqb a b)) exact_keys = true.
Proof. vm_compute. auto 10. Qed.

(* the model's extractDomain agrees with the real one on the regenerated table of Host spellings *)
Lemma extract_table_agrees :
  forallb (fun e => name_eqb (extractDomain (fst e)) (snd e)) ExtractTable = true /\ (10 <= length ExtractTable)%nat.
Proof. split; [vm_compute; reflexivity|vm_compute; lia]. Qed.

Lemma status_strings_distinct : pairwise (fun a b => negb (name_eqb a b)) StatusStrings = true /\ length StatusStrings = 3%nat.
Proof. vm_compute. auto 10. Qed.

Lemma default_base_domain_exists : DefaultBaseDomains <> [] /\ forallb (fun b => negb (name_eqb b [])) DefaultBaseDomains = true.
Proof. split; [discriminate|vm_compute; reflexivity]. Qed.

(* the store the repository is given by default has an atomic counter and an atomic set-if-absent;
   on the hybrid store the index and (when present) the removal guard live in the shared tier, and Incr is one atomic call *)
Lemma store_primitives : memory_store_has_Incr_and_SetNX = true /\ hybrid_index_is_shared = true /\
  hybrid_mapping_is_shared_persistent = true /\ implb delete_is_guarded hybrid_removal_guard_is_shared = true /\
  hybrid_incr_is_get_then_set = false /\
  (* C19_delete_success_frees_name_under_faults needs the index entry to be deleted before the record *)
  implb delete_is_guarded delete_index_before_record = true /\
  (* C19_faulted_lookup_is_rejected: a failed repository read ends the lookup *)
  lookup_error_stops = true /\
  (* C19_update_never_changes_owner: UpdateMapping compares the payload's client id with the stored one *)
  update_checks_client = true.   (* since d88dca0 hybrid.Storage.Incr delegates to its cache tier's atomic IncrBy *)
Proof. vm_compute. auto 10. Qed.

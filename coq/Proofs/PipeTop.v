(* Proofs/PipeTop.v — C02: final forms of the copy-loop statements (from the empty state), and the limiter premise. *)
From TX Require Import Model.Pipe Proofs.Pipe.
From Coq Require Import ZArith ZifyN ZifyNat ZifyBool Lia.
Open Scope N_scope.

(* the limiter NewBridge installs: none, or one whose burst is positive *)
Definition lim_wf (lim : option N) : Prop := match lim with Some b => 0 < b | None => True end.

Lemma current_limiter_never_fails lim : lim_wf lim -> forall n, limiter_ok Sliced lim false n = true.
Proof.
  intros H n. destruct lim as [b|]; [apply sliced_limiter_never_fails; exact H|reflexivity].
Qed.

Lemma acct0_lag th : acct_lag_ok th acct0.
Proof. unfold acct_lag_ok, acct_ok, acct0; cbn. split; [reflexivity|auto]. Qed.

Lemma copy_delivered_is_prefix v th iv lim cancelled rs ws :
  let r := copy_loop v th iv lim cancelled rs ws cst0 in
  exists rest, readable rs = c_out (snd r) ++ rest /\ (fst r = XReadEnd -> rest = []).
Proof.
  cbn zeta. destruct (copy_loop v th iv lim cancelled rs ws cst0) as [x s'] eqn:E.
  destruct (copy_loop_prefix v th iv lim cancelled rs ws cst0 x s' E) as (d & rest & (Ho & _) & Hr & _ & Hx).
  cbn [fst snd]. exists rest. cbn in Ho. rewrite Ho. auto.
Qed.

Lemma copy_counter_exact v th iv lim cancelled rs ws :
  let r := copy_loop v th iv lim cancelled rs ws cst0 in
  a_counter (c_acct (snd r)) = lenN (c_out (snd r)) /\
  a_total (c_acct (snd r)) = lenN (c_out (snd r)) /\
  a_batch (c_acct (snd r)) = 0.
Proof.
  cbn zeta. destruct (copy_loop v th iv lim cancelled rs ws cst0) as [x s'] eqn:E.
  destruct (copy_loop_prefix v th iv lim cancelled rs ws cst0 x s' E) as (d & rest & (Ho & Ht & Hl) & _ & Hb & _).
  cbn [fst snd]. cbn in Ho, Ht. destruct (Hl (acct0_lag th)) as [Hok _]. unfold acct_ok in Hok.
  rewrite Ho. split; [lia|]. split; [lia|exact Hb].
Qed.

Lemma copy_complete v th iv lim B rs ws :
  (forall n, limiter_ok v lim false n = true) ->
  Forall (wr_full B) ws -> Forall (fun r => lenN (r_data r) <= B) rs ->
  let r := copy_loop v th iv lim false rs ws cst0 in
  fst r = XReadEnd /\ c_out (snd r) = readable rs.
Proof.
  intros Hl Hw Hr. cbn zeta. destruct (copy_loop v th iv lim false rs ws cst0) as [x s'] eqn:E.
  destruct (copy_loop_complete v th iv lim B rs ws cst0 x s' Hl Hw Hr E) as [-> Ho]. cbn [fst snd]. auto.
Qed.
Close Scope N_scope.

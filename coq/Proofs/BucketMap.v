(* Proofs/BucketMap.v — one bucket per address, and at most `burst` admissions among concurrent first
   requests, for every schedule (Model/BucketMap.v). *)
From TX Require Import Model.BucketMap.
From Coq Require Import ZArith Lia.
Open Scope Z_scope.

Definition bst := (bsh * list blo)%type.
Definition bruns (recheck : bool) (burst : Z) : bst -> list nat -> bst := run bsh blo (bstep recheck burst).

Record binv (burst : Z) (s : bsh) : Prop :=
  { bi_heap : forall id, (id < next s)%nat -> bmap s (hkey s id) = Some id;
    bi_map : forall k id, bmap s k = Some id -> (id < next s)%nat /\ hkey s id = k;
    bi_tok : forall id, (id < next s)%nat -> 0 <= htok s id /\ adm s (hkey s id) + htok s id = burst;
    bi_none : forall k, bmap s k = None -> adm s k = 0 }.

(* a thread holding a bucket holds THE bucket of its key; every Take asks for a non-negative amount *)
Definition bthr (s : bsh) (l : blo) : Prop :=
  match l with
  | A0 _ n | ANeed _ n => 0 <= n
  | AHave k n id => 0 <= n /\ bmap s k = Some id
  | ADone _ => True
  end.

Lemma updN_same {A} (m : N -> A) k v : updN m k v k = v.
Proof. unfold updN. rewrite N.eqb_refl. reflexivity. Qed.
Lemma updN_other {A} (m : N -> A) k v x : x <> k -> updN m k v x = m x.
Proof. unfold updN. intros H. destruct (N.eqb_spec x k); [contradiction|reflexivity]. Qed.
Lemma updn_same {A} (m : nat -> A) k v : updn m k v k = v.
Proof. unfold updn. rewrite Nat.eqb_refl. reflexivity. Qed.
Lemma updn_other {A} (m : nat -> A) k v x : x <> k -> updn m k v x = m x.
Proof. unfold updn. intros H. destruct (Nat.eqb_spec x k); [contradiction|reflexivity]. Qed.

Lemma bstep_inv burst s l l' s' :
  0 <= burst -> binv burst s -> bthr s l -> bstep true burst l s = (l', s') ->
  binv burst s' /\ bthr s' l' /\ (forall x, bthr s x -> bthr s' x).
Proof.
  intros Hb HI HT Hs. destruct HI as [Hheap Hmap Htok Hnone].
  destruct l as [k n|k n|k n id|ok]; cbn [bstep bthr] in *.
  - (* lookup *)
    injection Hs as <- <-. split; [constructor; assumption|]. split; [|auto].
    destruct (bmap s k) as [id|] eqn:E; cbn; auto.
  - (* create with re-check *)
    destruct (bmap s k) as [id|] eqn:E.
    + injection Hs as <- <-. split; [constructor; assumption|]. split; [cbn; auto|auto].
    + injection Hs as <- <-. cbn [bthr bmap]. split; [|split].
      * constructor; cbn [bmap hkey htok next adm].
        -- intros id Hid. destruct (Nat.eqb_spec id (next s)) as [->|Hne].
           ++ rewrite updn_same, updN_same. reflexivity.
           ++ rewrite updn_other by exact Hne. assert (Hlt : (id < next s)%nat) by lia.
              rewrite updN_other; [apply Hheap, Hlt|]. intros Heq.
              specialize (Hheap id Hlt). rewrite Heq in Hheap. congruence.
        -- intros k' id Hk'. destruct (N.eqb_spec k' k) as [->|Hne].
           ++ rewrite updN_same in Hk'. injection Hk' as <-. rewrite updn_same. split; [lia|reflexivity].
           ++ rewrite updN_other in Hk' by exact Hne. destruct (Hmap _ _ Hk') as [Hlt Hkey].
              split; [lia|]. rewrite updn_other by lia. exact Hkey.
        -- intros id Hid. destruct (Nat.eqb_spec id (next s)) as [->|Hne].
           ++ rewrite !updn_same. rewrite (Hnone _ E). lia.
           ++ rewrite !updn_other by exact Hne. apply Htok. lia.
        -- intros k' Hk'. destruct (N.eqb_spec k' k) as [->|Hne].
           ++ rewrite updN_same in Hk'. discriminate.
           ++ rewrite updN_other in Hk' by exact Hne. apply Hnone, Hk'.
      * split; [exact HT|apply updN_same].
      * intros x Hx. destruct x as [k' n'|k' n'|k' n' id'|ok']; cbn [bthr bmap] in *; auto.
        destruct Hx as [Hn' Hx]. split; [exact Hn'|].
        destruct (N.eqb_spec k' k) as [->|Hne]; [congruence|]. rewrite updN_other by exact Hne. exact Hx.
  - (* Take *)
    destruct HT as [Hn Hk]. destruct (Hmap _ _ Hk) as [Hlt Hkey].
    destruct (htok s id >=? n) eqn:E; injection Hs as <- <-.
    + split; [|split; [exact I|intros x Hx; destruct x; cbn [bthr bmap] in *; auto]].
      constructor; cbn [bmap hkey htok next adm]; auto.
      * intros id' Hid'. destruct (Htok _ Hid') as [H1 H2].
        destruct (Nat.eqb_spec id' id) as [->|Hne].
        -- rewrite updn_same, Hkey, updN_same. rewrite Hkey in H2. lia.
        -- rewrite updn_other by exact Hne. rewrite updN_other; [auto|].
           intros Heq. apply Hne. specialize (Hheap _ Hid'). rewrite Heq, Hk in Hheap. congruence.
      * intros k' Hk'. destruct (N.eqb_spec k' k) as [->|Hne]; [congruence|].
        rewrite updN_other by exact Hne. apply Hnone, Hk'.
    + split; [constructor; assumption|]. split; [exact I|auto].
  - injection Hs as <- <-. split; [constructor; assumption|]. split; [exact I|auto].
Qed.

Definition binv_sys (burst : Z) (s : bst) : Prop := binv burst (fst s) /\ Forall (bthr (fst s)) (snd s).

Lemma Forall_upd_nth' {A} (P : A -> Prop) i x l : Forall P l -> P x -> Forall P (upd_nth i x l).
Proof. intros Hl Hx. revert i. induction Hl as [|h t Hh Ht IH]; intros [|j]; cbn; auto. Qed.
Lemma Forall_nth_error' {A} (P : A -> Prop) l i x : Forall P l -> nth_error l i = Some x -> P x.
Proof.
  intros Hl. revert i. induction Hl as [|h t Hh Ht IH]; intros [|j] Hn; cbn in Hn; try discriminate.
  - injection Hn as <-. exact Hh.
  - eapply IH; eauto.
Qed.

Lemma binv_all_schedules burst : 0 <= burst ->
  forall sched s, binv_sys burst s -> binv_sys burst (bruns true burst s sched).
Proof.
  intros Hb. apply (inv_all_schedules bsh blo (bstep true burst) (binv_sys burst)).
  intros s i [HI HT]. unfold sys_step. destruct (nth_error (snd s) i) as [l|] eqn:Hn; [|split; assumption].
  destruct (bstep true burst l (fst s)) as [l' s'] eqn:Hs.
  destruct (bstep_inv burst _ _ _ _ Hb HI (Forall_nth_error' _ _ _ _ HT Hn) Hs) as (HI' & HT' & Hmono).
  split; cbn [fst snd]; [exact HI'|]. apply Forall_upd_nth'; [|exact HT'].
  eapply Forall_impl; [|exact HT]. intros x Hx. apply Hmono, Hx.
Qed.

(* any number of concurrent first requests (threads at A0 with non-negative amounts), empty limiter *)
Definition fresh (ls : list blo) : Prop :=
  Forall (fun l => match l with A0 _ n => 0 <= n | _ => False end) ls.

Theorem one_bucket_per_address burst ls sched :
  0 <= burst -> fresh ls ->
  let s := fst (bruns true burst (binit, ls) sched) in
  (forall i j, (i < next s)%nat -> (j < next s)%nat -> hkey s i = hkey s j -> i = j) /\
  (forall k, adm s k <= burst) /\
  Forall (fun l => match l with AHave k _ id => bmap s k = Some id | _ => True end)
         (snd (bruns true burst (binit, ls) sched)).
Proof.
  intros Hb Hf s.
  assert (H0 : binv_sys burst (binit, ls)).
  { split; cbn [fst snd].
    - constructor; cbn; intros; try lia; try discriminate; reflexivity.
    - eapply Forall_impl; [|exact Hf]. intros l Hl. destruct l; cbn; auto; contradiction. }
  destruct (binv_all_schedules burst Hb sched _ H0) as [[Hheap Hmap Htok Hnone] HT]. fold s in Hheap, Hmap, Htok, Hnone, HT.
  split; [|split].
  - intros i j Hi Hj Heq. pose proof (Hheap i Hi) as H1. pose proof (Hheap j Hj) as H2.
    rewrite Heq in H1. congruence.
  - intros k. destruct (bmap s k) as [id|] eqn:E.
    + destruct (Hmap _ _ E) as [Hlt Hkey]. destruct (Htok _ Hlt) as [H1 H2]. rewrite Hkey in H2. lia.
    + rewrite (Hnone _ E). exact Hb.
  - eapply Forall_impl; [|exact HT]. intros l Hl. destruct l; auto. apply Hl.
Qed.

(* without the re-check two first requests each create a bucket: both are let through with burst = 1 *)
Lemma no_recheck_refuted :
  exists burst ls sched,
    0 <= burst /\ fresh ls /\
    let s := fst (bruns false burst (binit, ls) sched) in
    next s = 2%nat /\ hkey s 0 = hkey s 1 /\ adm s 7%N = 2 /\ burst = 1.
Proof.
  exists 1, [A0 7 1; A0 7 1], [0; 1; 0; 1; 0; 1]%nat.
  split; [lia|]. split; [repeat constructor; lia|]. vm_compute. repeat split; reflexivity.
Qed.

Lemma recheck_same_schedule :
  let s := fst (bruns true 1 (binit, [A0 7 1; A0 7 1]) [0; 1; 0; 1; 0; 1]%nat) in
  next s = 1%nat /\ adm s 7%N = 1.
Proof. vm_compute. split; reflexivity. Qed.

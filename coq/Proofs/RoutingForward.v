(* Proofs/RoutingForward.v — the last hop (forward reads the node address at forward time) and single-call storage faults
   (Model/RoutingForward.v). *)
From Coq Require Import List NArith ZArith Bool Lia.
Import ListNotations.
From TX Require Import Base.Val Model.RoutingForward Proofs.Routing.
Open Scope N_scope.

Section ForwardProofs.
  Variable gstr : Type.
  Variable enc : waiting -> gstr.
  Variable dec : gstr -> option waiting.
  Variable decm : gstr -> option waiting.
  Variable of_addr : str -> gstr.
  Variable to_addr : gstr -> str.
  Variable keep : cell -> N -> bool.

  Notation state := (state gstr).
  Notation step := (step gstr enc dec decm of_addr to_addr keep).
  Notation final := (final gstr enc dec decm of_addr to_addr keep).
  Notation lookup := (lookup gstr enc dec decm of_addr to_addr keep).
  Notation now := (now gstr).
  Notation bnow := (bnow gstr).
  Notation forward_now := (forward_now gstr enc dec decm of_addr to_addr keep).
  Notation frun := (frun gstr enc dec decm of_addr to_addr keep).
  Notation qstep := (qstep gstr enc dec decm of_addr to_addr keep).
  Notation qrun := (qrun gstr enc dec decm of_addr to_addr keep).
  Notation qfinal := (qfinal gstr enc dec decm of_addr to_addr keep).

  Lemma final_app : forall c a b s, final c s (a ++ b) = final c (final c s a) b.
  Proof.
    intros c a. induction a as [|o a IH]; intros b s; [reflexivity|].
    cbn [app]. rewrite !final_cons. apply IH.
  Qed.

  (* ---- (A) the forward dials the address that is registered NOW.
     Node n0 registers address a for node id; later (h1) node n1 registers tunnel r whose SourceNodeID is id; then h2.
     Along the whole history the address is kept alive (every re-registration of id's address re-registers a within the
     remaining lifetime, nobody else sets the key) - the LATEST address of id, whatever id's address was in the start state
     s and whatever forwards happened before (lookups and address reads by any node are ordinary operations of the
     histories) - and after the Register nobody sets the tunnel.  Then a target connection arriving on ANY node n2 is
     forwarded to (id, a). *)
  Theorem forward_dials_current_address : forall c s n0 id a h1 n1 r h2 n2,
    (forall x, to_addr (of_addr x) = x) ->
    keys_disjoint c -> c_route c (wait_key c (w_tunnel r)) = true -> c_route c (addr_key c id) = true ->
    c_ttl c <> 0 -> c_addr_ttl c <> 0 -> w_tunnel r <> [] -> a <> [] -> w_node r = id ->
    let sa := fst (step c s (ORegAddr n0 id a)) in
    let s1 := final c sa h1 in
    let r' := stamp r (now s1) (now s1 + c_ttl c) in
    dec (enc r') = Some r' ->
    kept_alive c (cell_of c n0 (addr_key c id)) a (c_addr_ttl c) (h1 ++ ORegister n1 r :: h2) ->
    Forall (fun o => ~ sets_tunnel (w_tunnel r) o) h2 ->
    let s2 := final c (fst (step c s1 (ORegister n1 r))) h2 in
    now s2 <= now s1 + c_ttl c -> bnow s2 <= bnow s1 + c_ttl c ->
    forward_now c s2 n2 (w_tunnel r) = FDial id a.
  Proof.
    intros c s n0 id a h1 n1 r h2 n2 Hac Hd Hrt Hra Httl Hattl Ht Ha Hnode sa s1 r' Hc Hk Hf s2 Hn Hb.
    assert (E : s2 = final c sa (h1 ++ ORegister n1 r :: h2)).
    { subst s2 s1. rewrite final_app. rewrite final_cons. reflexivity. }
    assert (L : lookup c s2 n2 (w_tunnel r) = ROk r').
    { exact (routable_from_any_node gstr enc dec decm of_addr to_addr keep c s1 n1 r h2 n2 Hd Hrt Httl Ht Hc Hf Hn Hb). }
    unfold RoutingForward.forward_now. rewrite L.
    cbn [w_node stamp r']. rewrite Hnode. unfold get_addr.
    rewrite E. subst sa.
    rewrite (addr_kept_alive gstr enc dec decm of_addr to_addr keep c s n0 id a _ n2 Hac Hattl Ha); [reflexivity| |exact Hk].
    unfold cell_of. rewrite Hra. reflexivity.
  Qed.

  (* without a memo the forwards inside a history are just lookups: the routing state does not depend on them *)
  Lemma frun_state : forall memo c h s m, fst (fst (frun memo c (s, m) h)) = final c s (map ferase h).
  Proof.
    intros memo c h. induction h as [|f h IH]; intros s m; [reflexivity|].
    cbn [RoutingForward.frun map]. rewrite final_cons.
    destruct (fstep gstr enc dec decm of_addr to_addr keep memo c (s, m) f) as [[s1 m1] r] eqn:E.
    specialize (IH s1 m1). destruct (frun memo c (s1, m1) h) as [sm2 rs]. cbn [fst] in *. rewrite IH. f_equal.
    unfold fstep in E. destruct f as [o|n t]; cbn [ferase].
    - injection E as E1 _ _. exact (eq_sym E1).
    - destruct (lookup c s n t) as [ | | |r0| | | | | | | ]; try (injection E as E1 _ _; exact (eq_sym E1)).
      destruct (if memo then m n (w_node r0) else None); [injection E as E1 _ _; exact (eq_sym E1)|].
      destruct (get_addr gstr enc dec decm of_addr to_addr keep c s n (w_node r0)); injection E as E1 _ _; exact (eq_sym E1).
  Qed.

  (* ---- (B) single-call faults of the shared tier, tree as found (fallback = false) *)

  (* every fault position: a failed write/read is REPORTED and nothing is written anywhere; only the failed Delete of
     RemoveWaitingTunnel is swallowed (and leaves the state untouched too) *)
  Theorem fault_reported_nothing_diverted : forall c s o, hits_shared c o = true ->
    qstep false c s (QFault o) = (s, match o with ORemove _ _ => QR RUnit | _ => QStorageErr end).
  Proof.
    intros c s o H. unfold RoutingForward.qstep. rewrite H. destruct o; reflexivity.
  Qed.

  Lemma qfinal_erase : forall c h s, qfinal false c s h = final c s (flat_map (qerase c) h).
  Proof.
    intros c h. induction h as [|x h IH]; intros s; [reflexivity|].
    unfold RoutingForward.qfinal in *. cbn [RoutingForward.qrun flat_map].
    destruct (qstep false c s x) as [s1 r] eqn:E. specialize (IH s1).
    destruct (qrun false c s1 h) as [s2 rs]. cbn [fst] in *. rewrite IH. rewrite final_app. f_equal.
    unfold RoutingForward.qstep in E. destruct x as [o|o]; cbn [qerase].
    - cbn [andb] in E. destruct (step c s o) as [s' r'] eqn:Es. injection E as E1 _. subst s1.
      rewrite final_cons, final_nil. rewrite Es. reflexivity.
    - destruct (hits_shared c o).
      + rewrite final_nil. destruct o; injection E as E1 _; exact (eq_sym E1).
      + destruct (step c s o) as [s' r'] eqn:Es. injection E as E1 _. subst s1.
        rewrite final_cons, final_nil. rewrite Es. reflexivity.
  Qed.

  Definition q_no_write (t : str) (x : qop) : Prop :=       (* no SUCCESSFUL registration of t *)
    match x with QOk o => ~ writes_tunnel t o | QFault _ => True end.
  Definition q_no_set (t : str) (x : qop) : Prop :=         (* no successful registration / removal of t *)
    match x with QOk o => ~ sets_tunnel t o | QFault _ => True end.

  Lemma flat_erase_Forall : forall (P : op -> Prop) (Q : qop -> Prop) c h,
    (forall o, Q (QOk o) -> P o) -> (forall o, hits_shared c o = false -> Q (QFault o) -> P o) ->
    Forall Q h -> Forall P (flat_map (qerase c) h).
  Proof.
    intros P Q c h H1 H2 Hf. induction Hf as [|x h Hx Hh IH]; [constructor|].
    cbn [flat_map]. apply Forall_app. split; [|exact IH].
    destruct x as [o|o]; cbn [qerase].
    - constructor; [apply H1; exact Hx|constructor].
    - destruct (hits_shared c o) eqn:E; [constructor|]. constructor; [apply H2; assumption|constructor].
  Qed.

  (* an operation that does not reach the shared tier cannot name a tunnel whose key is shared *)
  Lemma not_shared_not_tunnel : forall c t o, c_route c (wait_key c t) = true -> t <> [] ->
    hits_shared c o = false -> ~ sets_tunnel t o.
  Proof.
    intros c t o Hr Ht Hh Hs. unfold hits_shared, op_key in Hh.
    destruct o as [n r|n t'|n t'|dn db|n id a|n id]; cbn [sets_tunnel] in Hs; try contradiction.
    - subst t. destruct (w_tunnel r); [contradiction|]. cbn [nil_str] in Hh. rewrite Hr in Hh. discriminate.
    - subst t'. destruct t; [contradiction|]. cbn [nil_str] in Hh. rewrite Hr in Hh. discriminate.
  Qed.

  (* "ended => gone everywhere", with faults anywhere afterwards: after a Remove that took effect, along every history with
     single-call faults at ANY positions in which no registration of t SUCCEEDS (faulted registrations are reported and
     write nothing), a lookup from any node answers NotFound *)
  Theorem gone_after_end_despite_faults : forall c s n1 t h n2,
    keys_disjoint c -> c_route c (wait_key c t) = true -> t <> [] ->
    Forall (q_no_write t) h ->
    lookup c (qfinal false c (fst (step c s (ORemove n1 t))) h) n2 t = RNotFound.
  Proof.
    intros c s n1 t h n2 Hd Hr Ht Hf. rewrite qfinal_erase.
    apply (gone_after_remove gstr enc dec decm of_addr to_addr keep c s n1 t _ n2 Hd Hr Ht).
    apply (flat_erase_Forall _ (q_no_write t) c h); [intros o H; exact H| |exact Hf].
    intros o Hh _ Hw. apply (not_shared_not_tunnel c t o Hr Ht Hh).
    destruct o; cbn [writes_tunnel sets_tunnel] in *; try contradiction; exact Hw.
  Qed.

  (* "registered => routable from ANY node or the registration reported an error": a registration attempt either reports
     the storage error and changes nothing, or it took effect and - with faults at any later positions - every
     (unfaulted) lookup from any node returns exactly the record while unexpired *)
  Theorem registered_or_reported : forall c s n1 r x h n2,
    keys_disjoint c -> c_route c (wait_key c (w_tunnel r)) = true -> c_ttl c <> 0 -> w_tunnel r <> [] ->
    let r' := stamp r (now s) (now s + c_ttl c) in
    dec (enc r') = Some r' ->
    x = QOk (ORegister n1 r) \/ x = QFault (ORegister n1 r) ->
    Forall (q_no_set (w_tunnel r)) h ->
    qstep false c s x = (s, QStorageErr)
    \/ (snd (qstep false c s x) = QR (RReg r') /\
        let s2 := qfinal false c (fst (qstep false c s x)) h in
        (now s2 <= now s + c_ttl c -> bnow s2 <= bnow s + c_ttl c -> lookup c s2 n2 (w_tunnel r) = ROk r')).
  Proof.
    intros c s n1 r x h n2 Hd Hr Httl Ht r' Hc Hx Hf. destruct Hx as [Hx|Hx]; subst x.
    - right. unfold RoutingForward.qstep. cbn [andb].
      destruct (register_state gstr enc dec decm of_addr to_addr keep c s n1 r Ht) as [_ [_ [_ Hres]]].
      destruct (step c s (ORegister n1 r)) as [s1 res1] eqn:Es. cbn [fst snd] in *. split; [rewrite Hres; reflexivity|].
      cbv zeta. intros Hn Hb. rewrite qfinal_erase in *.
      assert (E1 : s1 = fst (step c s (ORegister n1 r))) by (rewrite Es; reflexivity). rewrite E1 in *.
      apply (routable_from_any_node gstr enc dec decm of_addr to_addr keep c s n1 r _ n2 Hd Hr Httl Ht Hc); [|exact Hn|exact Hb].
      apply (flat_erase_Forall _ (q_no_set (w_tunnel r)) c h); [intros o H; exact H| |exact Hf].
      intros o Hh _. exact (not_shared_not_tunnel c (w_tunnel r) o Hr Ht Hh).
    - left. apply fault_reported_nothing_diverted. unfold hits_shared, op_key.
      destruct (w_tunnel r); [contradiction|]. cbn [nil_str]. exact Hr.
  Qed.
End ForwardProofs.

(* ---- refuted variants and a model fact about a faulted Remove (concrete, clustered deployment) *)
From TX Require Import Proofs.SideC09.

Definition ex_frun (memo : bool) := frun ex_gstr ex_enc ex_dec ex_dec ex_of_addr ex_to_addr ex_keep memo.
Definition ex_qrun (fb : bool) := qrun ex_gstr ex_enc ex_dec ex_dec ex_of_addr ex_to_addr ex_keep fb.
Definition ex_qfinal (fb : bool) := qfinal ex_gstr ex_enc ex_dec ex_dec ex_of_addr ex_to_addr ex_keep fb.
Definition ex_forward_now := forward_now ex_gstr ex_enc ex_dec ex_dec ex_of_addr ex_to_addr ex_keep.
Definition ex_memo0 : memo := fun _ _ => None.

Definition ex_nodeid : str := [110;111;100;101;45;48].      (* "node-0" = w_node ex_rec *)
Definition ex_addr1 : str := [49;48;46;48;46;48;46;49].     (* "10.0.0.1" *)
Definition ex_addr2 : str := [49;48;46;48;46;48;46;50].     (* "10.0.0.2" *)
Definition ex_rec2 : waiting :=
  mkW [116;57] (w_mapping ex_rec) [] ex_nodeid 3%Z 4%Z [104] 80%Z 0 0.

(* node-0 lives at address 1, tunnel t1 is forwarded from node 1; node-0 re-registers under address 2 (address 1 still
   accepts connections); tunnel t9 waits on node-0 and is forwarded from node 1 *)
Definition ex_forward_history : list fop :=
  [FO (ORegAddr 0 ex_nodeid ex_addr1); FO (ORegister 0 ex_rec); FF 1 (w_tunnel ex_rec); FO (ORemove 0 (w_tunnel ex_rec));
   FO (OTick 1000 1000); FO (ORegAddr 0 ex_nodeid ex_addr2); FO (ORegister 0 ex_rec2); FF 1 (w_tunnel ex_rec2)].

Lemma memo_forward_refuted :
  let c := cfg_hybrid true 30000000000 in
  snd (ex_frun false c (init ex_gstr, ex_memo0) ex_forward_history)
  = [None; None; Some (FDial ex_nodeid ex_addr1); None; None; None; None; Some (FDial ex_nodeid ex_addr2)]
  /\ snd (ex_frun true c (init ex_gstr, ex_memo0) ex_forward_history)
  = [None; None; Some (FDial ex_nodeid ex_addr1); None; None; None; None; Some (FDial ex_nodeid ex_addr1)]
  /\ ex_forward_now c (fst (fst (ex_frun true c (init ex_gstr, ex_memo0) ex_forward_history))) 1 (w_tunnel ex_rec2)
     = FDial ex_nodeid ex_addr2.
Proof. vm_compute. repeat split; reflexivity. Qed.

(* the shared tier fails exactly during RegisterWaitingTunnel on node 0; the tunnel ends; a late lookup on node 0.
   Tree as found: the registration reports the error, the id never resolves.  Local-fallback variant: the registration
   reports success although node 1 cannot resolve the id, and after the tunnel ended node 0 still resolves it *)
Definition ex_fault_history : list qop :=
  [QFault (ORegister 0 ex_rec); QOk (OLookup 1 (w_tunnel ex_rec)); QOk (OLookup 0 (w_tunnel ex_rec));
   QOk (ORemove 0 (w_tunnel ex_rec)); QOk (OLookup 0 (w_tunnel ex_rec)); QOk (OLookup 1 (w_tunnel ex_rec))].

Lemma local_fallback_refuted :
  let c := cfg_hybrid true 30000000000 in
  snd (ex_qrun false c (init ex_gstr) ex_fault_history)
  = [QStorageErr; QR RNotFound; QR RNotFound; QR RUnit; QR RNotFound; QR RNotFound]
  /\ snd (ex_qrun true c (init ex_gstr) ex_fault_history)
  = [QR (RReg (stamp ex_rec 0 30000000000)); QR RNotFound; QR (ROk (stamp ex_rec 0 30000000000)); QR RUnit;
     QR (ROk (stamp ex_rec 0 30000000000)); QR RNotFound].
Proof. vm_compute. split; reflexivity. Qed.

(* model fact (not a finding): the shared tier fails during RemoveWaitingTunnel itself; the failed Delete is logged and nil is
   returned, so the record stays and resolves until ExpiresAt (and not a nanosecond longer) *)
Lemma faulted_remove_leaves_record_until_expiry :
  let c := cfg_hybrid true 30000000000 in
  snd (ex_qrun false c (init ex_gstr)
         [QOk (ORegister 0 ex_rec); QFault (ORemove 0 (w_tunnel ex_rec)); QOk (OLookup 1 (w_tunnel ex_rec));
          QOk (OTick 30000000000 0); QOk (OLookup 1 (w_tunnel ex_rec)); QOk (OTick 1 0); QOk (OLookup 1 (w_tunnel ex_rec))])
  = [QR (RReg (stamp ex_rec 0 30000000000)); QR RUnit; QR (ROk (stamp ex_rec 0 30000000000)); QR RUnit;
     QR (ROk (stamp ex_rec 0 30000000000)); QR RUnit; QR RExpired].
Proof. vm_compute. reflexivity. Qed.

(* ---- (C) polling *)
Lemma poll_interval_capped : forall init factor cap k, init <= cap -> poll_interval init factor cap k <= cap.
Proof. intros init factor cap k H. destruct k as [|k]; cbn [poll_interval]; [exact H|apply N.le_min_r]. Qed.

Section PollProofs.
  Variable gstr : Type.
  Variable enc : waiting -> gstr.
  Variable dec : gstr -> option waiting.
  Variable decm : gstr -> option waiting.
  Variable of_addr : str -> gstr.
  Variable to_addr : gstr -> str.
  Variable keep : cell -> N -> bool.

  Notation step := (step gstr enc dec decm of_addr to_addr keep).
  Notation final := (final gstr enc dec decm of_addr to_addr keep).
  Notation lookup := (lookup gstr enc dec decm of_addr to_addr keep).
  Notation poll_run := (poll_run gstr enc dec decm of_addr to_addr keep).
  Notation now := (now gstr).
  Notation bnow := (bnow gstr).

  (* the target arrived first: it polls through [pre] rounds (anything may happen in them); during the next round the source
     registers r (h1 ++ Register :: h2, nobody sets the id in h2, still inside the waiting period at the end of the round).
     Then the polling resolves at the latest at the FIRST poll after the publication, and what it returns there is exactly r *)
  Theorem poll_resolves_at_first_poll_after_publication : forall c n1 r h1 h2 n2 pre post s i,
    keys_disjoint c -> c_route c (wait_key c (w_tunnel r)) = true -> c_ttl c <> 0 -> w_tunnel r <> [] ->
    let s0 := fold_left (fun st h => final c st h) pre s in
    let s1 := final c s0 h1 in
    let r' := stamp r (now s1) (now s1 + c_ttl c) in
    dec (enc r') = Some r' ->
    Forall (fun o => ~ sets_tunnel (w_tunnel r) o) h2 ->
    let s2 := final c (fst (step c s1 (ORegister n1 r))) h2 in
    now s2 <= now s1 + c_ttl c -> bnow s2 <= bnow s1 + c_ttl c ->
    exists j x, poll_run c s n2 (w_tunnel r) (pre ++ (h1 ++ ORegister n1 r :: h2) :: post) i = Some (j, x)
                /\ (j <= i + length pre + 1)%nat /\ (j = (i + length pre + 1)%nat -> x = r').
  Proof.
    intros c n1 r h1 h2 n2 pre. induction pre as [|h pre IH]; intros post s i Hd Hr Httl Ht s0 s1 r' Hc Hf s2 Hn Hb.
    - cbn [app RoutingForward.poll_run fold_left] in *.
      destruct (lookup c s n2 (w_tunnel r)) as [ | | |x| | | | | | | ] eqn:E;
        try (exists i, x; split; [reflexivity|split; [cbn; lia|intro K; cbn in K; lia]]).
      all: assert (L : lookup c (final c s (h1 ++ ORegister n1 r :: h2)) n2 (w_tunnel r) = ROk r')
             by (rewrite final_app, final_cons;
                 exact (routable_from_any_node gstr enc dec decm of_addr to_addr keep c s1 n1 r h2 n2 Hd Hr Httl Ht Hc Hf Hn Hb)).
      all: destruct post as [|p post]; cbn [RoutingForward.poll_run]; rewrite L;
           exists (S i), r'; (split; [reflexivity|split; [cbn; lia|intros _; reflexivity]]).
    - cbn [app RoutingForward.poll_run].
      destruct (lookup c s n2 (w_tunnel r)) as [ | | |x| | | | | | | ] eqn:E;
        try (exists i, x; split; [reflexivity|split; [cbn [length]; lia|intro K; cbn [length] in K; lia]]).
      all: destruct (IH post (final c s h) (S i) Hd Hr Httl Ht Hc Hf Hn Hb) as [j [x [A [B C]]]];
           exists j, x; (split; [exact A|split; [cbn [length]; lia|intro K; apply C; cbn [length] in K; lia]]).
  Qed.
End PollProofs.

(* an id whose earlier life was forwarded by node 1 and ended is registered again: the routing table is the authority
   (forward_now dials it); a per-node closed-tunnel guard refuses it on node 1 for ever *)
Lemma closed_tracker_guard_refuted :
  let c := cfg_hybrid true 30000000000 in
  let s := ex_final c (init ex_gstr) [ORegAddr 0 ex_nodeid ex_addr1; ORegister 0 ex_rec; OLookup 1 (w_tunnel ex_rec);
                                      ORemove 0 (w_tunnel ex_rec); OTick 1000 1000; ORegister 0 ex_rec] in
  let closed : nat -> str -> bool := fun n t => Nat.eqb n 1 && list_eqb t (w_tunnel ex_rec) in
  ex_forward_now c s 1 (w_tunnel ex_rec) = FDial ex_nodeid ex_addr1
  /\ forward_with_closed_guard ex_gstr ex_enc ex_dec ex_dec ex_of_addr ex_to_addr ex_keep closed c s 1 (w_tunnel ex_rec) = FNoRoute
  /\ forward_with_closed_guard ex_gstr ex_enc ex_dec ex_dec ex_of_addr ex_to_addr ex_keep closed c s 2 (w_tunnel ex_rec)
     = FDial ex_nodeid ex_addr1.
Proof. vm_compute. repeat split; reflexivity. Qed.

(* Proofs/AuthNonce.v — (2) challenge_single_use for Model/Auth.v. *)
From Coq Require Import List NArith Bool Lia.
From Coq Require Import ZArith ZifyN ZifyNat ZifyBool.
From TX Require Import Model.Auth Proofs.Auth.
Import ListNotations.
Open Scope N_scope.

Section Nonce.
Variable hmac : N -> N -> N.
Variables mf pb : N.
Notation auth := (auth hmac mf pb).
Notation handle := (handle hmac mf pb).
Notation step := (step hmac mf pb).
Notation targets := (targets hmac mf pb).

(* pending challenges were issued (are below the nonce counter) and no two connections share one *)
Definition pend_inv (s : srv) : Prop :=
  (forall k n, pending_of s k = Some n -> n < next_nonce s) /\
  (forall k1 k2 n, pending_of s k1 = Some n -> pending_of s k2 = Some n -> k1 = k2).

Definition pend_c0 (cn : conn) : cc := match c_cc cn with Some c => c | None => new_cc end.

Lemma pending_of_conn s k cn : conns s k = Some cn -> pending_of s k = pending (pend_c0 cn).
Proof. intro H. unfold pending_of, pend_c0. rewrite H. destruct (c_cc cn); reflexivity. Qed.

(* effect of the handler on the pending challenge and on the nonce counter *)
Lemma auth_result_pending chk v s c a m s1 c1 ar : auth_result hmac mf pb chk v s c a m s1 c1 ar ->
  (pending c1 = pending c /\ next_nonce s1 = next_nonce s) \/
  (pending c1 = Some (next_nonce s) /\ next_nonce s1 = next_nonce s + 1) \/
  (pending c1 = None /\ next_nonce s1 = next_nonce s).
Proof.
  intro H; destruct H; cbn;
    try (left; split; [reflexivity|]; try reflexivity; try (unfold first_state; destruct (v_first_keeps v); reflexivity);
         destruct (rf_frame mf pb (v_ban_monotone v) s a) as (_ & _ & _ & _ & Hn); exact Hn).
  - right. left. split; reflexivity.
  - right. right. split; reflexivity.
  - right. right. split; [reflexivity|]. destruct (rf_frame mf pb (v_ban_monotone v) s a) as (_ & _ & _ & _ & Hn); exact Hn.
Qed.

Lemma verif_target_consumed chk v s k m cn ch s1 c1 ar :
  conns s k = Some cn -> verif_target chk s k m = Some ch ->
  auth_result hmac mf pb chk v s (pend_c0 cn) (c_addr cn) m s1 c1 ar ->
  pending (pend_c0 cn) = Some ch /\ pending c1 = None /\ next_nonce s1 = next_nonce s.
Proof.
  intros Hc Hv Har. unfold verif_target in Hv. rewrite Hc in Hv.
  destruct (gate_fail chk s (c_addr cn) m) eqn:Hg; [discriminate|].
  destruct ((h_cid m =? 0) && h_new m) eqn:H0; [discriminate|].
  destruct (clients s (h_cid m)) as [cl|] eqn:Hcl; [|discriminate].
  destruct (expired cl) eqn:He; [discriminate|].
  destruct (h_resp m) as [r|] eqn:Hr; [|discriminate].
  assert (Hp : pending (pend_c0 cn) = Some ch) by (unfold pend_c0; destruct (c_cc cn); [exact Hv|discriminate]).
  split; [exact Hp|].
  destruct Har as [Hg'| | |cl'|cl'|cl' r'|cl' sec' ch'|cl' ch' r'|cl']; cbn.
  - exfalso. congruence.
  - exfalso. match goal with H1 : h_cid m = 0, H2 : h_new m = true |- _ => rewrite H1, H2 in H0 end. discriminate.
  - congruence.
  - exfalso. congruence.
  - exfalso. congruence.
  - exfalso. congruence.
  - split; reflexivity.
  - split; [reflexivity|]. destruct (rf_frame mf pb (v_ban_monotone v) s (c_addr cn)) as (_ & _ & _ & _ & Hnn); exact Hnn.
  - exfalso. congruence.
Qed.

(* pending challenges after a handshake: on the acting connection what the handler left, elsewhere unchanged or gone *)
Lemma handle_pending chk v s k h cn s1 c1 ar :
  conns s k = Some cn -> auth chk v s (pend_c0 cn) (c_addr cn) h = (s1, c1, ar) ->
  let s' := fst (handle chk v s k (Some h)) in
  next_nonce s' = next_nonce s1 /\
  pending_of s' k = pending c1 /\
  (forall k', k' <> k -> pending_of s' k' = pending_of s k' \/ pending_of s' k' = None).
Proof.
  intros Hc Ha s'.
  pose proof (auth_cases hmac mf pb chk v s (pend_c0 cn) (c_addr cn) h) as Har. rewrite Ha in Har.
  destruct (auth_result_frame _ _ _ _ _ _ _ _ _ _ _ _ Har) as [Hcs _].
  destruct (handle_shape hmac mf pb chk v s k h cn Hc s1 c1 ar Ha) as [He|(He & _ & _ & _)]; unfold s'; rewrite He.
  - split; [reflexivity|]. split.
    + unfold pending_of. rewrite post_auth_conns, N.eqb_refl. reflexivity.
    + intros k' Hn. left. unfold pending_of. rewrite post_auth_conns.
      destruct (N.eqb_spec k' k); [contradiction|]. rewrite Hcs. reflexivity.
  - set (s3 := post_auth s1 k cn c1).
    set (s4 := match index s3 (ccid c1) with Some k'' => if k'' =? k then s3 else evict s3 k'' | None => s3 end).
    assert (Hn4 : next_nonce s4 = next_nonce s1).
    { unfold s4. destruct (index s3 (ccid c1)) as [k''|]; [|reflexivity]. destruct (k'' =? k); [reflexivity|].
      unfold evict. destruct (conns s3 k'') as [cn''|]; [|reflexivity]. destruct (c_cc cn''); reflexivity. }
    split; [unfold install; fold s3; fold s4; cbn; exact Hn4|]. split.
    + unfold pending_of, install. fold s3. fold s4. cbn [conns set_conns set_index]. rewrite upd_same. reflexivity.
    + intros k' Hn.
      assert (E : pending_of (install s3 k cn c1) k' = pending_of s4 k').
      { unfold pending_of, install. fold s4. cbn [conns set_conns set_index]. rewrite upd_other by assumption. reflexivity. }
      rewrite E.
      assert (H3 : pending_of s3 k' = pending_of s k').
      { unfold pending_of, s3. rewrite post_auth_conns. destruct (N.eqb_spec k' k); [contradiction|]. rewrite Hcs. reflexivity. }
      unfold s4. destruct (index s3 (ccid c1)) as [k''|]; [|left; exact H3].
      destruct (k'' =? k); [left; exact H3|].
      destruct (N.eq_dec k' k'') as [->|Hn2].
      * right. unfold pending_of. rewrite evict_conns_self. destruct (conns s3 k'') as [cn''|]; [|reflexivity].
        destruct (c_cc cn'') eqn:Hcc; cbn; rewrite ?Hcc; reflexivity.
      * left. rewrite <- H3. unfold pending_of. rewrite evict_conns_other by assumption. reflexivity.
Qed.

Lemma close_pending s k k' : pending_of (close s k) k' = pending_of s k' \/ pending_of (close s k) k' = None.
Proof.
  unfold pending_of, close. cbn [conns set_conns].
  destruct (N.eq_dec k' k) as [->|Hn]; [right; rewrite upd_same; reflexivity|].
  left. rewrite upd_other by assumption. rewrite evict_conns_other by assumption. reflexivity.
Qed.

Lemma close_nonce s k : next_nonce (close s k) = next_nonce s.
Proof.
  unfold close, evict. cbn. destruct (conns s k) as [cn|]; [|reflexivity]. destruct (c_cc cn); reflexivity.
Qed.

(* a handshake (with or without gate checks): the counter never decreases; a pending challenge afterwards was pending on
   the same connection before, or is the new one of the acting connection (>= the old counter) *)
Lemma handle_step_pending chk v s k m :
  let s' := fst (handle chk v s k m) in
  next_nonce s <= next_nonce s' /\
  (forall k' n, pending_of s' k' = Some n ->
                pending_of s k' = Some n \/ (k' = k /\ next_nonce s <= n /\ n < next_nonce s')).
Proof.
  cbv zeta. destruct m as [h|]; [|split; [cbn; lia|intros k' n H; left; exact H]].
  destruct (conns s k) as [cn|] eqn:Hc; [|unfold Auth.handle; rewrite Hc; split; [cbn; lia|intros k' n H; left; exact H]].
  destruct (auth chk v s (pend_c0 cn) (c_addr cn) h) as [[s1 c1] ar] eqn:Ha.
  pose proof (auth_cases hmac mf pb chk v s (pend_c0 cn) (c_addr cn) h) as Har. rewrite Ha in Har.
  destruct (handle_pending chk v s k h cn s1 c1 ar Hc Ha) as (Hn & Hk & Ho). cbv zeta in *.
  pose proof (auth_result_pending _ _ _ _ _ _ _ _ _ Har) as Hp.
  split; [rewrite Hn; destruct Hp as [[_ E]|[[_ E]|[_ E]]]; lia|].
  intros k' n H. destruct (N.eq_dec k' k) as [->|Hne].
  - rewrite Hk in H. rewrite Hn. rewrite (pending_of_conn s k cn Hc).
    destruct Hp as [[E1 E2]|[[E1 E2]|[E1 E2]]]; rewrite E1 in H.
    + left. exact H.
    + right. injection H as <-. split; [reflexivity|lia].
    + discriminate.
  - destruct (Ho k' Hne) as [E|E]; rewrite E in H; [left; exact H|discriminate].
Qed.

Lemma ban_req_pending mono perm s a : next_nonce (ban_req mono perm s a) = next_nonce s /\
  forall k, pending_of (ban_req mono perm s a) k = pending_of s k.
Proof.
  destruct (ban_req_frame mono perm s a) as (E1 & _ & _ & _ & E5 & _). split; [exact E5|].
  intro k. unfold pending_of. rewrite E1. reflexivity.
Qed.

(* one event: as above; at most one connection ([knew]) receives a new challenge *)
Lemma step_pending v s e :
  let s' := fst (step v s e) in
  next_nonce s <= next_nonce s' /\
  exists knew, forall k n, pending_of s' k = Some n ->
                           pending_of s k = Some n \/ (k = knew /\ next_nonce s <= n /\ n < next_nonce s').
Proof.
  destruct e; cbn [Auth.step fst]; cbv zeta;
    try (split; [cbn; lia|exists 0; intros k' n H; left; exact H]).
  - (* EMsg *) destruct (handle_step_pending true v s k m) as [H1 H2]. split; [exact H1|exists k; exact H2].
  - (* EBan *) destruct (ban_req_pending (v_ban_monotone v) false s a) as [E1 E2].
    split; [rewrite E1; lia|exists 0; intros k' n H; left; rewrite E2 in H; exact H].
  - (* ERestart *) split; [destruct lapsed; cbn; lia|exists 0; intros k' n H; destruct lapsed; discriminate].
  - (* EExpire *) destruct (clients s x); (split; [cbn; lia|exists 0; intros k' n H; left; exact H]).
  - (* EDelAnon *) destruct (v_anon_delete v); (split; [cbn; lia|exists 0; intros k' n H; left; exact H]).
  - (* ERekey *) unfold rekey. destruct (clients s x); (split; [cbn; lia|exists 0; intros k' n H; left; exact H]).
  - (* ECorrupt *) destruct (clients s x); (split; [cbn; lia|exists 0; intros k' n H; left; exact H]).
  - (* EClose *) split; [rewrite close_nonce; lia|]. exists 0. intros k' n H.
    destruct (close_pending s k k') as [E|E]; rewrite E in H; [left; exact H|discriminate].
  - (* EOpen *) split; [cbn [next_nonce set_conns]; rewrite close_nonce; lia|]. exists 0. intros k' n H.
    unfold pending_of in H. cbn [conns set_conns] in H.
    destruct (N.eq_dec k' k) as [->|Hn]; [rewrite upd_same in H; discriminate|].
    rewrite upd_other in H by assumption. fold (pending_of (close s k) k') in H.
    destruct (close_pending s k k') as [E|E]; rewrite E in H; [left; exact H|discriminate].
  - (* ESetRecord *) destruct (clients s x); (split; [cbn; lia|exists 0; intros k' n H; left; exact H]).
  - (* EBanLapse *) destruct (v_ban_monotone v); (split; [cbn; lia|exists 0; intros k' n H; left; exact H]).
  - (* EBody *) destruct (handle_step_pending false v s k (Some m)) as [H1 H2]. split; [exact H1|exists k; exact H2].
  - (* ETempLapse *) destruct (permb s a); (split; [cbn; lia|exists 0; intros k' n H; left; exact H]).
Qed.

Lemma step_pend_inv v s e : pend_inv s -> pend_inv (fst (step v s e)).
Proof.
  intros [H1 H2]. destruct (step_pending v s e) as [Hm [knew Hp]]. cbv zeta in *. split.
  - intros k n H. destruct (Hp _ _ H) as [Ho|(_ & _ & Hl)]; [|exact Hl]. specialize (H1 _ _ Ho). lia.
  - intros k1 k2 n Ha Hb.
    destruct (Hp _ _ Ha) as [Ho1|(E1 & Hl1 & Hu1)]; destruct (Hp _ _ Hb) as [Ho2|(E2 & Hl2 & Hu2)].
    + eapply H2; eauto.
    + specialize (H1 _ _ Ho1). lia.
    + specialize (H1 _ _ Ho2). lia.
    + congruence.
Qed.

Lemma init_pend_inv : pend_inv init.
Proof. split; intros; discriminate. Qed.

Definition avail (s : srv) (ch : N) : Prop := (exists k, pending_of s k = Some ch) \/ next_nonce s <= ch.

Lemma verif_target_pending chk s k m ch : verif_target chk s k m = Some ch -> pending_of s k = Some ch.
Proof.
  unfold verif_target, pending_of. destruct (conns s k) as [cn|]; [|discriminate].
  destruct (gate_fail chk s (c_addr cn) m); [discriminate|].
  destruct ((h_cid m =? 0) && h_new m); [discriminate|].
  destruct (clients s (h_cid m)) as [cl|]; [|discriminate]. destruct (expired cl); [discriminate|].
  destruct (h_resp m); [|discriminate]. auto.
Qed.

Lemma targets_avail v es : forall s ch, In ch (targets v s es) -> avail s ch.
Proof.
  induction es as [|e es IH]; intros s ch Hin; [contradiction|].
  cbn [Auth.targets] in Hin. apply in_app_or in Hin as [Hin|Hin].
  - destruct e; try contradiction.
    + destruct m as [m|]; [|contradiction].
      destruct (verif_target true s k m) as [c|] eqn:Hv; [|contradiction]. destruct Hin as [<-|[]].
      left. exists k. apply verif_target_pending in Hv. exact Hv.
    + destruct (verif_target false s k m) as [c|] eqn:Hv; [|contradiction]. destruct Hin as [<-|[]].
      left. exists k. apply verif_target_pending in Hv. exact Hv.
  - destruct (IH _ _ Hin) as [[k Hk]|Hge]; destruct (step_pending v s e) as [Hm [knew Hp]]; cbv zeta in *.
    + destruct (Hp _ _ Hk) as [Ho|(_ & Hl & _)]; [left; exists k; exact Ho|right; exact Hl].
    + right. lia.
Qed.

Lemma target_gone chk v s k m ch : pend_inv s -> verif_target chk s k m = Some ch ->
  let s' := fst (handle chk v s k (Some m)) in
  (forall k', pending_of s' k' <> Some ch) /\ next_nonce s' = next_nonce s.
Proof.
  intros [H1 H2] Hv. cbv zeta.
  pose proof (verif_target_pending _ _ _ _ _ Hv) as Hpk.
  destruct (conns s k) as [cn|] eqn:Hc; [|unfold pending_of in Hpk; rewrite Hc in Hpk; discriminate].
  destruct (auth chk v s (pend_c0 cn) (c_addr cn) m) as [[s1 c1] ar] eqn:Ha.
  pose proof (auth_cases hmac mf pb chk v s (pend_c0 cn) (c_addr cn) m) as Har. rewrite Ha in Har.
  destruct (verif_target_consumed _ _ _ _ _ _ _ _ _ _ Hc Hv Har) as (_ & Hnone & Hnn).
  destruct (handle_pending chk v s k m cn s1 c1 ar Hc Ha) as (Hn & Hk & Ho). cbv zeta in *.
  split; [|rewrite Hn; exact Hnn].
  intros k' Hk'. destruct (N.eq_dec k' k) as [->|Hne].
  - rewrite Hk, Hnone in Hk'. discriminate.
  - destruct (Ho k' Hne) as [E|E]; rewrite E in Hk'; [|discriminate].
    apply Hne. eapply H2; eauto.
Qed.

Lemma targets_nodup v es : forall s, pend_inv s -> NoDup (targets v s es).
Proof.
  induction es as [|e es IH]; intros s Hinv; [constructor|].
  cbn [Auth.targets]. pose proof (IH _ (step_pend_inv v s e Hinv)) as Htl.
  assert (Hone : forall chk k m ch, verif_target chk s k m = Some ch ->
                 fst (step v s e) = fst (handle chk v s k (Some m)) -> NoDup (ch :: targets v (fst (step v s e)) es)).
  { intros chk k m ch Hv He. constructor; [|exact Htl]. intro Hin.
    destruct (target_gone chk v s k m ch Hinv Hv) as [Hgone Hnn]. cbv zeta in *. rewrite <- He in Hgone, Hnn.
    destruct (targets_avail v es _ _ Hin) as [[k' Hk']|Hge].
    - exact (Hgone k' Hk').
    - destruct Hinv as [H1 _]. specialize (H1 _ _ (verif_target_pending _ _ _ _ _ Hv)). lia. }
  destruct e; try exact Htl.
  - destruct m as [m|]; [|exact Htl].
    destruct (verif_target true s k m) as [ch|] eqn:Hv; [|exact Htl]. cbn [app]. eapply Hone; [exact Hv|reflexivity].
  - destruct (verif_target false s k m) as [ch|] eqn:Hv; [|exact Htl]. cbn [app]. eapply Hone; [exact Hv|reflexivity].
Qed.

Theorem challenge_single_use v es : NoDup (targets v init es).
Proof. apply targets_nodup. apply init_pend_inv. Qed.

Theorem success_is_a_counted_verification chk v s k h : pend_inv s ->
  o_auth (snd (handle chk v s k (Some h))) = Some ASuccess ->
  exists ch, verif_target chk s k h = Some ch /\ ch < next_nonce s.
Proof.
  intros [H1 _] Ho.
  destruct (conns s k) as [cn|] eqn:Hc; [|unfold Auth.handle in Ho; rewrite Hc in Ho; discriminate].
  destruct (auth chk v s (pend_c0 cn) (c_addr cn) h) as [[s1 c1] ar] eqn:Ha.
  pose proof (auth_cases hmac mf pb chk v s (pend_c0 cn) (c_addr cn) h) as Har. rewrite Ha in Har.
  rewrite (handle_out_auth hmac mf pb chk v s k h cn Hc _ _ _ Ha) in Ho. injection Ho as ->.
  inversion Har as [| | | | | |cl sec ch Hg Hcl He Hst Hr Hp| |]; subst.
  exists ch. split.
  - unfold verif_target. rewrite Hc, Hg, Hcl, He, Hr.
    assert (H0 : (h_cid h =? 0) && h_new h = false).
    { destruct ((h_cid h =? 0) && h_new h) eqn:E; [exfalso|reflexivity].
      (* a first connection is answered ASuccessNew, never ASuccess *)
      revert Ha. unfold Auth.auth. rewrite Hg, E. discriminate. }
    rewrite H0. unfold pend_c0 in Hp. destruct (c_cc cn); [exact Hp|discriminate].
  - apply (H1 k). rewrite (pending_of_conn s k cn Hc). exact Hp.
Qed.

(* ------------------------------------------------------------------------------------------ *)
(* the pending challenge of a connection is the LATEST challenge issued on that connection        *)
(* ------------------------------------------------------------------------------------------ *)

Lemma auth_result_issue chk v s c a m s1 c1 ar : auth_result hmac mf pb chk v s c a m s1 c1 ar ->
  (ar = AChallenge (next_nonce s) /\ pending c1 = Some (next_nonce s)) \/
  ((forall n, ar <> AChallenge n) /\ (pending c1 = pending c \/ pending c1 = None)).
Proof.
  intro H; destruct H; cbn; try (right; split; [intros n E; discriminate E|auto]).
  left. split; reflexivity.
Qed.

Lemma handle_issue chk v s k m k' ch :
  pending_of (fst (handle chk v s k m)) k' = Some ch ->
  (k' = k /\ o_auth (snd (handle chk v s k m)) = Some (AChallenge ch)) \/
  ((k' <> k \/ forall n, o_auth (snd (handle chk v s k m)) <> Some (AChallenge n)) /\ pending_of s k' = Some ch).
Proof.
  intro H. destruct m as [h|]; [|right; split; [right; intros n E; discriminate E|exact H]].
  destruct (conns s k) as [cn|] eqn:Hc.
  2:{ unfold Auth.handle in *. rewrite Hc in *. right. split; [right; intros n E; discriminate E|exact H]. }
  destruct (auth chk v s (pend_c0 cn) (c_addr cn) h) as [[s1 c1] ar] eqn:Ha.
  pose proof (auth_cases hmac mf pb chk v s (pend_c0 cn) (c_addr cn) h) as Har. rewrite Ha in Har.
  destruct (handle_pending chk v s k h cn s1 c1 ar Hc Ha) as (_ & Hk & Ho). cbv zeta in *.
  rewrite (handle_out_auth hmac mf pb chk v s k h cn Hc _ _ _ Ha).
  destruct (N.eq_dec k' k) as [->|Hne].
  - rewrite Hk in H. destruct (auth_result_issue _ _ _ _ _ _ _ _ _ Har) as [[E1 E2]|[E1 [E2|E2]]].
    + left. split; [reflexivity|]. rewrite E2 in H. injection H as <-. rewrite E1. reflexivity.
    + right. split; [right; intros n E; injection E as E; exact (E1 n E)|].
      rewrite E2 in H. rewrite (pending_of_conn s k cn Hc). exact H.
    + rewrite E2 in H. discriminate.
  - right. split; [left; exact Hne|]. destruct (Ho k' Hne) as [E|E]; rewrite E in H; [exact H|discriminate].
Qed.

Lemma step_issue v s e k ch acc :
  (forall c, pending_of s k = Some c -> acc = Some c) ->
  pending_of (fst (step v s e)) k = Some ch -> note k e (snd (step v s e)) acc = Some ch.
Proof.
  intros Hacc H.
  assert (Hmsg : forall chk k0 m, pending_of (fst (handle chk v s k0 m)) k = Some ch ->
            (if k0 =? k then match o_auth (snd (handle chk v s k0 m)) with Some (AChallenge n) => Some n | _ => acc end else acc) = Some ch).
  { intros chk k0 m Hp. destruct (handle_issue chk v s k0 m k ch Hp) as [[-> E]|[Hno Hold]].
    - rewrite N.eqb_refl, E. reflexivity.
    - specialize (Hacc _ Hold). destruct (N.eqb_spec k0 k) as [->|_]; [|exact Hacc].
      destruct Hno as [Hno|Hno]; [contradiction|].
      destruct (o_auth (snd (handle chk v s k m))) as [[id| |n|]|] eqn:E; try exact Hacc.
      exfalso. exact (Hno n eq_refl). }
  destruct e; cbn [Auth.step fst snd] in *; unfold note; cbn [o_auth no_out];
    try (apply Hacc; exact H); try (apply Hmsg; exact H).
  - (* EBan *) apply Hacc. destruct (ban_req_pending (v_ban_monotone v) false s a) as [_ E]. rewrite E in H. exact H.
  - (* ERestart *) destruct lapsed; discriminate H.
  - (* EExpire *) apply Hacc. destruct (clients s x); exact H.
  - (* EDelAnon *) apply Hacc. destruct (v_anon_delete v); exact H.
  - (* ERekey *) apply Hacc. unfold rekey in H. destruct (clients s x); exact H.
  - (* ECorrupt *) apply Hacc. destruct (clients s x); exact H.
  - (* EClose *) apply Hacc. destruct (close_pending s k0 k) as [E|E]; rewrite E in H; [exact H|discriminate].
  - (* EOpen *) apply Hacc. unfold pending_of in H. cbn [conns set_conns] in H.
    destruct (N.eq_dec k k0) as [->|Hn]; [rewrite upd_same in H; discriminate|].
    rewrite upd_other in H by assumption. fold (pending_of (close s k0) k) in H.
    destruct (close_pending s k0 k) as [E|E]; rewrite E in H; [exact H|discriminate].
  - (* ESetRecord *) apply Hacc. destruct (clients s x); exact H.
  - (* EBanLapse *) apply Hacc. destruct (v_ban_monotone v); exact H.
  - (* ETempLapse *) apply Hacc. destruct (permb s a); exact H.
Qed.

Lemma last_issued_inv v es : forall s k acc,
  (forall c, pending_of s k = Some c -> acc = Some c) ->
  forall ch, pending_of (run hmac mf pb v s es) k = Some ch -> last_issued hmac mf pb v s es k acc = Some ch.
Proof.
  induction es as [|e es IH]; intros s k acc Hacc ch H; [apply Hacc; exact H|].
  cbn [Auth.run Auth.last_issued] in *. eapply IH; [|exact H].
  intros c Hc. eapply step_issue; eassumption.
Qed.

(* in every reachable state, the challenge pending on a connection is the one most recently issued on that connection *)
Theorem pending_is_latest_issued v es k ch :
  pending_of (run hmac mf pb v init es) k = Some ch -> last_issued hmac mf pb v init es k None = Some ch.
Proof. apply last_issued_inv. intros c Hc. discriminate Hc. Qed.

Theorem run_pend_inv v es : forall s, pend_inv s -> pend_inv (run hmac mf pb v s es).
Proof. induction es as [|e es IH]; intros s H; [exact H|]. cbn. apply IH. apply step_pend_inv. exact H. Qed.

End Nonce.

(* non-vacuity: two challenges issued on one connection; the pending one is the second *)
Lemma latest_issued_satisfiable :
  let es := [ERegister; EOpen 1 0; EMsg 1 (p1 1 false); EMsg 1 (p1 1 false)] in
  pending_of (run toy_hmac 5 20 current_variant init es) 1 = Some 2 /\
  last_issued toy_hmac 5 20 current_variant init es 1 None = Some 2.
Proof. split; vm_compute; reflexivity. Qed.

(* Proofs/PipeIndep.v — C02: the two directions of a bridge are independent.  While the bridge is open, the state of a
   direction and the stream it has delivered are a function of that direction's own input and of the number of its own
   steps — whatever the opposite direction's script, oracle and progress are, including an opposite direction that is
   parked in its read for ever.  Also: closure propagates within two steps of the other direction, whatever ended the
   first one (close or failure). *)
From TX Require Import Model.Pipe Proofs.Pipe Proofs.PipeBridge.
From Coq Require Import ZArith ZifyN ZifyNat ZifyBool Lia.
Open Scope N_scope.

Section I.
  Variable v : variant.
  Variable threshold : N.
  Variable lim : option N.
  Notation bstep := (bstep v threshold lim).
  Notation step := (sys_step _ _ bstep).

  Ltac leaf := cbn [fst snd b_dir b_set b_finish s_closed];
    rewrite ?sh_out_deliver_same, ?sh_out_deliver_other;
    repeat match goal with |- context [s_closed (sh_deliver ?d ?b ?s)] => rewrite (proj1 (sh_closed_deliver d b s)) end.

  (* a step touches only its own direction's bytes, keeps the direction, and never re-opens the bridge *)
  Lemma bstep_frame t sh :
    b_dir (fst (bstep t sh)) = b_dir t /\
    sh_out (negb (b_dir t)) (snd (bstep t sh)) = sh_out (negb (b_dir t)) sh /\
    (s_closed sh = true -> s_closed (snd (bstep t sh)) = true).
  Proof.
    unfold Pipe.bstep. destruct (s_closed sh) eqn:Ec;
    repeat match goal with
           | |- context [match ?x with _ => _ end] => destruct x
           end; leaf; try rewrite Ec; repeat split; auto; try (destruct (b_dir t); reflexivity); try discriminate.
  Qed.

  (* what a step does to its own direction depends only on the thread, on the bytes its direction has delivered and on
     whether the bridge is closed — not on anything the other direction owns *)
  Lemma bstep_local t sh sh' :
    s_closed sh = s_closed sh' -> sh_out (b_dir t) sh = sh_out (b_dir t) sh' ->
    fst (bstep t sh) = fst (bstep t sh') /\
    sh_out (b_dir t) (snd (bstep t sh)) = sh_out (b_dir t) (snd (bstep t sh')) /\
    s_closed (snd (bstep t sh)) = s_closed (snd (bstep t sh')).
  Proof.
    intros Hc Ho. unfold Pipe.bstep. rewrite <- Hc. destruct (s_closed sh) eqn:Ec;
    repeat match goal with
           | |- context [match ?x with _ => _ end] => destruct x
           end; leaf; rewrite <- ?Hc, ?Ec, ?Ho; repeat split; auto;
    try (destruct (b_dir t); cbn; cbn in Ho; congruence).
  Qed.

  Definition Shape2 (s : bshared * list bthread) : Prop :=
    exists t0 t1, snd s = [t0; t1] /\ b_dir t0 = false /\ b_dir t1 = true.
  Definition dir_of (i : nat) : bool := Nat.eqb i 1.
  Definition thr (s : bshared * list bthread) (i : nat) : option bthread := nth_error (snd s) i.
  (* the part of the state that belongs to direction i, plus the closed flag *)
  Definition agree (i : nat) (s s' : bshared * list bthread) : Prop :=
    thr s i = thr s' i /\ sh_out (dir_of i) (fst s) = sh_out (dir_of i) (fst s') /\
    s_closed (fst s) = s_closed (fst s').

  Lemma shape_step s j : Shape2 s -> Shape2 (step s j).
  Proof.
    destruct s as [sh ls]. intros (t0 & t1 & Hls & H0 & H1). cbn [snd] in Hls. subst ls. unfold sys_step. cbn [fst snd].
    destruct j as [|[|j]]; cbn [nth_error].
    - destruct (bstep t0 sh) as [t' sh'] eqn:E. cbn [snd upd_nth]. exists t', t1. split; [reflexivity|].
      pose proof (bstep_frame t0 sh) as [Hd _]. rewrite E in Hd. cbn in Hd. split; congruence.
    - destruct (bstep t1 sh) as [t' sh'] eqn:E. cbn [snd upd_nth]. exists t0, t'. split; [reflexivity|].
      pose proof (bstep_frame t1 sh) as [Hd _]. rewrite E in Hd. cbn in Hd. split; congruence.
    - assert (En : nth_error (@nil bthread) j = None) by (destruct j; reflexivity). rewrite En. exists t0, t1. auto.
  Qed.

  (* a step of the OTHER direction (or of nobody) leaves direction i alone and cannot re-open the bridge *)
  Lemma step_other i j s : (i < 2)%nat -> j <> i -> Shape2 s ->
    thr (step s j) i = thr s i /\ sh_out (dir_of i) (fst (step s j)) = sh_out (dir_of i) (fst s) /\
    (s_closed (fst s) = true -> s_closed (fst (step s j)) = true).
  Proof.
    intros Hi Hne. destruct s as [sh ls]. intros (t0 & t1 & Hls & H0 & H1). cbn [snd] in Hls. subst ls.
    unfold sys_step, thr. cbn [fst snd].
    destruct j as [|[|j]]; cbn [nth_error].
    - destruct i as [|[|i]]; try lia. pose proof (bstep_frame t0 sh) as (_ & Ho & Hc).
      destruct (bstep t0 sh) as [t' sh']. cbn [fst snd upd_nth nth_error] in *. rewrite H0 in Ho. cbn in Ho. auto.
    - destruct i as [|[|i]]; try lia. pose proof (bstep_frame t1 sh) as (_ & Ho & Hc).
      destruct (bstep t1 sh) as [t' sh']. cbn [fst snd upd_nth nth_error] in *. rewrite H1 in Ho. cbn in Ho. auto.
    - assert (En : nth_error (@nil bthread) j = None) by (destruct j; reflexivity). rewrite En. cbn. auto.
  Qed.

  (* a step of direction i itself acts the same way in any two states that agree on direction i's part *)
  Lemma step_self i s s' : (i < 2)%nat -> Shape2 s -> Shape2 s' -> agree i s s' -> agree i (step s i) (step s' i).
  Proof.
    intros Hi. destruct s as [sh ls], s' as [sh' ls'].
    intros (t0 & t1 & Hls & H0 & H1) (u0 & u1 & Hls' & G0 & G1) (Ht & Ho & Hc).
    cbn [fst snd] in *. subst ls ls'. unfold thr in Ht. cbn [snd] in Ht. unfold agree, thr, sys_step. cbn [fst snd].
    destruct i as [|[|i]]; try lia; cbn [nth_error] in *.
    - injection Ht as <-. pose proof (bstep_local t0 sh sh' Hc) as HL. rewrite H0 in HL. specialize (HL Ho).
      destruct (bstep t0 sh) as [a sa], (bstep t0 sh') as [b sb]. cbn [fst snd upd_nth nth_error] in *.
      destruct HL as (-> & Ho' & Hc'). auto.
    - injection Ht as <-. pose proof (bstep_local t1 sh sh' Hc) as HL. rewrite H1 in HL. specialize (HL Ho).
      destruct (bstep t1 sh) as [a sa], (bstep t1 sh') as [b sb]. cbn [fst snd upd_nth nth_error] in *.
      destruct HL as (-> & Ho' & Hc'). auto.
  Qed.

  Lemma closed_mono : forall sched s, Shape2 s -> s_closed (fst s) = true -> s_closed (fst (run _ _ bstep s sched)) = true.
  Proof.
    induction sched as [|j r IH]; intros s Hs Hc; cbn [run fold_left]; [exact Hc|].
    apply IH; [apply shape_step; exact Hs|].
    destruct s as [sh ls]. destruct Hs as (t0 & t1 & Hls & _). cbn [snd] in Hls. subst ls. unfold sys_step. cbn [fst snd] in *.
    destruct j as [|[|j]]; cbn [nth_error].
    + pose proof (bstep_frame t0 sh) as (_ & _ & H). destruct (bstep t0 sh). cbn in *. auto.
    + pose proof (bstep_frame t1 sh) as (_ & _ & H). destruct (bstep t1 sh). cbn in *. auto.
    + assert (En : nth_error (@nil bthread) j = None) by (destruct j; reflexivity). rewrite En. exact Hc.
  Qed.

  Lemma indep_gen i : (i < 2)%nat -> forall sched s s', Shape2 s -> Shape2 s' -> agree i s s' ->
    s_closed (fst (run _ _ bstep s sched)) = false ->
    agree i (run _ _ bstep s sched) (run _ _ bstep s' (repeat i (count_occ Nat.eq_dec sched i))).
  Proof.
    intros Hi. induction sched as [|j r IH]; intros s s' Hs Hs' Ha Hopen; cbn [run fold_left count_occ repeat] in *; [exact Ha|].
    destruct (Nat.eq_dec j i) as [->|Hne].
    - cbn [repeat fold_left]. apply IH; [apply shape_step; exact Hs|apply shape_step; exact Hs'|apply step_self; assumption|exact Hopen].
    - apply IH; [apply shape_step; exact Hs|exact Hs'| |exact Hopen].
      destruct (step_other i j s Hi Hne Hs) as (A & B & C). destruct Ha as (Ha1 & Ha2 & Ha3).
      assert (Hsc : s_closed (fst s) = false).
      { destruct (s_closed (fst s)) eqn:E; [|reflexivity].
        pose proof (closed_mono r _ (shape_step s j Hs) (C eq_refl)) as Hm. unfold run in Hm. congruence. }
      assert (Hsc' : s_closed (fst (step s j)) = false).
      { destruct (s_closed (fst (step s j))) eqn:E; [|reflexivity].
        pose proof (closed_mono r _ (shape_step s j Hs) E) as Hm. unfold run in Hm. congruence. }
      split; [congruence|]. split; congruence.
  Qed.
End I.

Lemma shape_init rs0 ws0 rs1 ws1 : Shape2 (bridge_init rs0 ws0 rs1 ws1).
Proof. eexists _, _. split; [reflexivity|]. split; reflexivity. Qed.

(* direction independence: as long as the bridge is open, thread i and the bytes direction i has delivered are exactly
   those of a run in which direction i takes the same number of steps ALONE against any other opposite input *)
Theorem directions_independent : forall v threshold lim rs0 ws0 rs1 ws1 rs0' ws0' rs1' ws1' sched i,
  (i < 2)%nat ->
  (i = 0%nat -> rs0' = rs0 /\ ws0' = ws0) -> (i = 1%nat -> rs1' = rs1 /\ ws1' = ws1) ->
  let s := bridge_run v threshold lim rs0 ws0 rs1 ws1 sched in
  let s' := bridge_run v threshold lim rs0' ws0' rs1' ws1' (repeat i (count_occ Nat.eq_dec sched i)) in
  s_closed (fst s) = false ->
  nth_error (snd s) i = nth_error (snd s') i /\
  sh_out (Nat.eqb i 1) (fst s) = sh_out (Nat.eqb i 1) (fst s').
Proof.
  intros v th lim rs0 ws0 rs1 ws1 rs0' ws0' rs1' ws1' sched i Hi H0 H1 s s' Hopen.
  assert (Ha : agree i (bridge_init rs0 ws0 rs1 ws1) (bridge_init rs0' ws0' rs1' ws1')).
  { unfold agree, thr, bridge_init. cbn [fst snd]. destruct i as [|[|i]]; try lia; cbn [nth_error].
    - destruct (H0 eq_refl) as [-> ->]. auto.
    - destruct (H1 eq_refl) as [-> ->]. auto. }
  destruct (indep_gen v th lim i Hi sched _ _ (shape_init _ _ _ _) (shape_init _ _ _ _) Ha Hopen) as (A & B & _).
  split; [exact A|exact B].
Qed.

(* the coupled variant (a write waits while the opposite direction is parked in its read of the same end) is NOT
   independent: "server speaks first" — the target end sends a greeting, the source end stays silent (direction 0 is never
   scheduled: it is parked in its Read) — the greeting is never delivered, however long direction 1 runs ... *)
Lemma coupled_never_delivers_refuted : forall n,
  s_out1 (fst (coupled_run Sliced 1048576 None [{| r_data := [1]; r_end := RNone |}] []
                                         [{| r_data := [104; 105]; r_end := RNone |}] [] (repeat 1%nat n))) = [].
Proof.
  intros n. destruct n as [|n]; [reflexivity|]. unfold coupled_run. cbn [repeat fold_left].
  set (s1 := coupled_step Sliced 1048576 None (bridge_init [{| r_data := [1]; r_end := RNone |}] [] [{| r_data := [104; 105]; r_end := RNone |}] []) 1).
  assert (Hfix : forall k, fold_left (coupled_step Sliced 1048576 None) (repeat 1%nat k) s1 = s1).
  { induction k as [|k IH]; [reflexivity|]. cbn [repeat fold_left].
    assert (E : coupled_step Sliced 1048576 None s1 1 = s1) by (vm_compute; reflexivity). rewrite E. exact IH. }
  rewrite Hfix. vm_compute. reflexivity.
Qed.

(* ... whereas the model of the code delivers it after two steps of direction 1, the source end still silent *)
Lemma independent_delivers_witness :
  s_out1 (fst (bridge_run Sliced 1048576 None [{| r_data := [1]; r_end := RNone |}] []
                                       [{| r_data := [104; 105]; r_end := RNone |}] [] [1; 1]%nat)) = [104; 105].
Proof. vm_compute. reflexivity. Qed.

(* closure propagation, for closes AND failures: once the bridge is closed — which happens as soon as ANY direction has
   ended, for whatever reason (EOF, read error, write error, short write, limiter) — a direction that is scheduled twice
   more is done: its end has observed the closure *)
Section C.
  Variable v : variant.
  Variable threshold : N.
  Variable lim : option N.

  Lemma closed_two_steps t sh : s_closed sh = true ->
    match b_pc (fst (bstep v threshold lim t sh)) with BFinish _ | BDone _ => True | _ => False end /\
    (match b_pc t with BFinish _ | BDone _ => True | _ => False end ->
     match b_pc (fst (bstep v threshold lim t sh)) with BDone _ => True | _ => False end).
  Proof.
    intros Hc. unfold bstep. rewrite Hc. destruct (b_pc t) eqn:E; cbn; rewrite ?E; (split; [exact I|]); intros H; solve [exact I | contradiction].
  Qed.
End C.

Theorem closure_propagates : forall v threshold lim rs0 ws0 rs1 ws1 sched1 sched2 j,
  (j < 2)%nat ->
  s_closed (fst (bridge_run v threshold lim rs0 ws0 rs1 ws1 sched1)) = true ->
  (2 <= count_occ Nat.eq_dec sched2 j)%nat ->
  exists t x, nth_error (snd (bridge_run v threshold lim rs0 ws0 rs1 ws1 (sched1 ++ sched2))) j = Some t /\ b_pc t = BDone x.
Proof.
  intros v th lim rs0 ws0 rs1 ws1 sched1 sched2 j Hj Hc Hn.
  unfold bridge_run in *. rewrite run_app.
  set (S1 := run _ _ (bstep v th lim) (bridge_init rs0 ws0 rs1 ws1) sched1) in *.
  assert (HS1 : Shape2 S1).
  { unfold S1. clear. induction sched1 as [|i r IH] using rev_ind; [apply shape_init|]. rewrite run_app. cbn [run fold_left]. apply shape_step. exact IH. }
  clearbody S1.
  (* rank: 2 = running, 1 = loop left, 0 = done *)
  set (rk := fun (s : bshared * list bthread) => match nth_error (snd s) j with
                     | Some t => match b_pc t with BDone _ => 0%nat | BFinish _ => 1%nat | _ => 2%nat end | None => 0%nat end).
  assert (Hgen : forall sched s, Shape2 s -> s_closed (fst s) = true ->
            (rk (run _ _ (bstep v th lim) s sched) <= rk s - count_occ Nat.eq_dec sched j)%nat /\ Shape2 (run _ _ (bstep v th lim) s sched)).
  { induction sched as [|i r IH]; intros s Hs Hcl; cbn [run fold_left count_occ]; [split; [lia|exact Hs]|].
    assert (Hs' := shape_step v th lim s i Hs).
    assert (Hcl' : s_closed (fst (sys_step _ _ (bstep v th lim) s i)) = true).
    { pose proof (closed_mono v th lim [i] s Hs Hcl) as H. exact H. }
    destruct (IH _ Hs' Hcl') as [IH1 IH2]. unfold run in IH1, IH2. split; [|exact IH2].
    assert (Hstep : (i = j -> rk (sys_step _ _ (bstep v th lim) s i) <= Nat.pred (rk s))%nat /\
                    (i <> j -> rk (sys_step _ _ (bstep v th lim) s i) = rk s)).
    { destruct s as [sh ls]. destruct Hs as (t0 & t1 & Hls & _). cbn [fst snd] in *. subst ls. unfold rk, sys_step. cbn [fst snd].
      split.
      - intros ->. destruct j as [|[|j]]; try lia; cbn [nth_error].
        + pose proof (closed_two_steps v th lim t0 sh Hcl) as [A B]. destruct (bstep v th lim t0 sh) as [t' sh']. cbn [fst snd upd_nth nth_error] in *.
          destruct (b_pc t0); destruct (b_pc t'); try lia; try contradiction; try (exfalso; apply B; exact I).
        + pose proof (closed_two_steps v th lim t1 sh Hcl) as [A B]. destruct (bstep v th lim t1 sh) as [t' sh']. cbn [fst snd upd_nth nth_error] in *.
          destruct (b_pc t1); destruct (b_pc t'); try lia; try contradiction; try (exfalso; apply B; exact I).
      - intros Hne. destruct i as [|[|i]]; cbn [nth_error].
        + destruct (bstep v th lim t0 sh) as [t' sh']. cbn [snd upd_nth]. destruct j as [|[|j]]; try lia; reflexivity.
        + destruct (bstep v th lim t1 sh) as [t' sh']. cbn [snd upd_nth]. destruct j as [|[|j]]; try lia; reflexivity.
        + assert (En : nth_error (@nil bthread) i = None) by (destruct i; reflexivity). rewrite En. reflexivity. }
    destruct (Nat.eq_dec i j) as [E|E]; [pose proof (proj1 Hstep E)|pose proof (proj2 Hstep E)]; lia. }
  destruct (Hgen sched2 S1 HS1 Hc) as [Hr (t0 & t1 & Hls & _)].
  assert (Hz : rk (run _ _ (bstep v th lim) S1 sched2) = 0%nat).
  { assert (rk S1 <= 2)%nat; [|lia]. unfold rk. destruct (nth_error (snd S1) j) as [t|]; [destruct (b_pc t)|]; lia. }
  unfold rk in Hz. rewrite Hls in *. destruct j as [|[|j]]; try lia; cbn [nth_error] in *.
  - exists t0. destruct (b_pc t0) eqn:E; try lia. eauto.
  - exists t1. destruct (b_pc t1) eqn:E; try lia. eauto.
Qed.
Close Scope N_scope.

(* Proofs/ClientState.v — lemmas about Model/ClientState.v (C08, client runtime-state record). *)
From TX Require Import Base.Threads.
From TX Require Import Model.ConnState Proofs.ConnState Model.ClientState.
From Coq Require Import Lia.
Open Scope N_scope.

Section RS.
  Variables (v : variant) (b : backend) (ttl : N).
  Variables X n c : N.

  Lemma rs_run_snoc tm h e : rs_run tm v b ttl (h ++ [e]) = rs_step tm v b ttl (rs_run tm v b ttl h) e.
  Proof. unfold rs_run. rewrite fold_left_app. reflexivity. Qed.

  Lemma rs_run_app tm h1 h2 :
    rs_run tm v b ttl (h1 ++ h2) = fold_left (rs_step tm v b ttl) h2 (rs_run tm v b ttl h1).
  Proof. unfold rs_run. rewrite fold_left_app. reflexivity. Qed.

  (* one event that does not disturb (X, c) leaves "the record names (n, c)" alone *)
  Lemma rs_event_keeps w rs e :
    rs X = Some (n, c) -> disturbs X c e = false -> rs_event false w rs e X = Some (n, c).
  Proof.
    intros H Hd. destruct e as [n1 c1|n1 c1 x|n1 c1|n1 x c1|n1 c1|n1 c1|d]; cbn [rs_event]; try exact H.
    - cbn [disturbs] in Hd. apply orb_false_iff in Hd. destruct Hd as [Hx _]. apply N.eqb_neq in Hx.
      destruct (negb (w_conns w n1 c1) || (x =? 0)); [exact H|].
      rewrite upd_other; [exact H|congruence].
    - destruct (w_ctl w n1 c1) as [x|]; [|exact H].
      destruct (rs x) as [l|] eqn:E; [exact H|].
      rewrite upd_other; [exact H|]. intro E'. subst x. rewrite H in E. discriminate.
    - cbn [disturbs] in Hd. apply N.eqb_neq in Hd.
      destruct (w_ctl w n1 c1) as [x|]; [|exact H].
      destruct (loc_eqb (rs x) n1 c1) eqn:El; [|exact H].
      destruct (N.eq_dec X x) as [E|E].
      + subst x. rewrite H in El. cbn [loc_eqb] in El. apply andb_true_iff in El. destruct El as [_ Ec].
        apply N.eqb_eq in Ec. congruence.
      + rewrite upd_other; [exact H|exact E].
  Qed.

  Lemma rs_fold_keeps post : forall s,
    snd s X = Some (n, c) -> quiet X c post = true ->
    snd (fold_left (rs_step false v b ttl) post s) X = Some (n, c).
  Proof.
    induction post as [|e post IH]; intros s H Hq; [exact H|].
    cbn [quiet forallb] in Hq. apply andb_true_iff in Hq. destruct Hq as [Hd Hq]. apply negb_true_iff in Hd.
    cbn [fold_left]. apply IH; [|exact Hq]. unfold rs_step. cbn [snd]. apply rs_event_keeps; assumption.
  Qed.

  Lemma state_current pre post : state_current_at false v b ttl X n c pre post.
  Proof.
    intros HX Hcn Hq. rewrite rs_run_app. cbn [fold_left].
    apply rs_fold_keeps; [|exact Hq].
    unfold rs_step. cbn [snd rs_event]. rewrite Hcn. apply N.eqb_neq in HX. rewrite HX. cbn [negb orb].
    apply upd_same.
  Qed.
End RS.

(* the pinned behaviour "the heartbeat's touch re-writes node/conn": a late heartbeat of the OLD connection moves the
   record back, and the old node's cleanup then deletes it although the client is connected elsewhere *)
Definition rs_wit_pre : list event := [Connect 1 10; AuthOK 1 10 7; Connect 2 20].
Definition rs_wit_post_moved : list event := [Heartbeat 1 10].
Definition rs_wit_post_deleted : list event := [Heartbeat 1 10; Heartbeat 2 20; Heartbeat 1 10; Connect 1 11].

Lemma touch_moves_refuted :
  exists X n c pre post, ~ state_current_at true current_variant redis_backend 300000 X n c pre post.
Proof.
  exists 7, 2, 20, rs_wit_pre, rs_wit_post_moved. intro H.
  assert (HX : 7 <> 0) by discriminate.
  specialize (H HX eq_refl eq_refl). vm_compute in H. discriminate.
Qed.

Lemma state_premises_satisfiable :
  7 <> 0 /\ w_conns (fst (rs_run false current_variant redis_backend 300000 rs_wit_pre)) 2 20 = true /\
  quiet 7 20 (rs_wit_post_deleted ++ [Close 1 10; Tick 5]) = true /\
  snd (rs_run false current_variant redis_backend 300000
         (rs_wit_pre ++ AuthOK 2 20 7 :: rs_wit_post_deleted ++ [Close 1 10; Tick 5])) 7 = Some (2, 20) /\
  (* the same history under touch_moves: the old node's cleanup finds "its" record and deletes it *)
  snd (rs_run true current_variant redis_backend 300000
         (rs_wit_pre ++ AuthOK 2 20 7 :: [Heartbeat 1 10; Close 1 10])) 7 = None.
Proof. split; [discriminate|]. repeat split; vm_compute; reflexivity. Qed.

(* the tunnel-typed handshake of the pinned ServerAuthHandler: after a control login on (1, 10), a tunnel-typed handshake on
   node 2 moves the record there, and the close of that tunnel connection then deletes the record of a client whose control
   connection is registered (replayed on the REAL auth handler by the harness, mode realauth) *)
Lemma tunnel_handshake_refuted :
  let rs1 := upd rs_empty 7 (Some (1, 10)) in
  tunnel_handshake_effect true rs1 7 2 30 7 = Some (2, 30) /\
  loc_eqb (tunnel_handshake_effect true rs1 7 2 30 7) 2 30 = true /\
  tunnel_handshake_effect false rs1 7 2 30 7 = Some (1, 10) /\
  loc_eqb (tunnel_handshake_effect false rs1 7 2 30 7) 2 30 = false.
Proof. vm_compute. repeat split; reflexivity. Qed.

(* ---- storage-call granularity: the two-call service (cas = false) has two read-modify-write windows ---- *)
Lemma disconnect_window_refuted :
  exists sched, rloc (fst (rrun false false (rs_old, [RDisc 7 1 10 0; RConnect 7 2 20]) sched)) 7 = None /\
                snd (rrun false false (rs_old, [RDisc 7 1 10 0; RConnect 7 2 20]) sched) = [RDone; RDone].
Proof. exists [0;1;1;0]%nat. vm_compute. split; reflexivity. Qed.

Lemma touch_window_refuted :
  exists sched, rloc (fst (rrun false false (rs_old, [REnsure 7 1 10 0; RConnect 7 2 20]) sched)) 7 = Some (1, 10) /\
                snd (rrun false false (rs_old, [REnsure 7 1 10 0; RConnect 7 2 20]) sched) = [RDone; RDone].
Proof. exists [0;1;1;0]%nat. vm_compute. split; reflexivity. Qed.

Lemma windows_sequential_ok :
  rloc (fst (rrun false false (rs_old, [RDisc 7 1 10 0; RConnect 7 2 20]) [0;0;1;1]%nat)) 7 = Some (2, 20) /\
  rloc (fst (rrun false false (rs_old, [RDisc 7 1 10 0; RConnect 7 2 20]) [1;1;0;0]%nat)) 7 = Some (2, 20) /\
  rloc (fst (rrun false false (rs_old, [REnsure 7 1 10 0; RConnect 7 2 20]) [0;0;1;1]%nat)) 7 = Some (2, 20) /\
  rloc (fst (rrun false false (rs_old, [REnsure 7 1 10 0; RConnect 7 2 20]) [1;1;0;0]%nat)) 7 = Some (2, 20).
Proof. repeat split; vm_compute; reflexivity. Qed.

(* ---- the repaired service (cas = true): the login survives every schedule ---- *)
Section RStable.
  Variables X B b : N.
  Variable rot : bool.
  Hypothesis Hnz : B <> 0 \/ b <> 0.

  Lemma rval_eqb_eq a c : rval_eqb a c = true -> a = c.
  Proof.
    destruct a as [[n1 c1] v1]. destruct c as [[n2 c2] v2]. cbn.
    intro H. apply andb_true_iff in H. destruct H as [H H3]. apply andb_true_iff in H. destruct H as [H1 H2].
    apply N.eqb_eq in H1. apply N.eqb_eq in H2. apply N.eqb_eq in H3. subst. reflexivity.
  Qed.

  Lemma holds_val_eq sh x a : holds_val sh x a = true -> rmap sh x = Some a.
  Proof.
    unfold holds_val. destruct (rmap sh x) as [c|]; [|discriminate].
    intro H. apply rval_eqb_eq in H. subst. reflexivity.
  Qed.

  Lemma live_some o a : live o = Some a -> o = Some a.
  Proof. unfold live. destruct o as [c|]; [|discriminate]. destruct (is_tomb c); [discriminate|]. auto. Qed.

  Lemma rest_write sh x n c : rest X B b sh -> (x = X -> n = B /\ c = b) -> rest X B b (rwrite sh x n c).
  Proof.
    intros [v Hv] Hx. unfold rest, rwrite. cbn [rmap].
    destruct (N.eq_dec X x) as [E|E].
    - subst x. destruct (Hx eq_refl) as [-> ->]. rewrite upd_same. eexists. reflexivity.
    - rewrite upd_other; [exists v; exact Hv|exact E].
  Qed.

  (* one storage call of one safe invocation keeps the other invocations' guarantees *)
  Lemma rsafe_step lo sh :
    rsafe X B b lo ->
    rsafe X B b (fst (rstep true rot lo sh)) /\ (rest X B b sh -> rest X B b (snd (rstep true rot lo sh))).
  Proof.
    intro Hs. destruct lo; cbn [rstep rsafe] in *; try contradiction.
    - (* RConnect *) split; [exact Hs|auto].
    - (* RConnect2 *) split; [exact I|]. intro Hr. apply rest_write; assumption.
    - (* REnsure *)
      split; [|cbn [snd]; auto].
      destruct (live (rmap sh x)) as [[[n0 c0] v0]|]; cbn [fst rsafe]; exact I.
    - (* REnsureCas *)
      destruct (holds_val sh x a) eqn:Eh; cbn [fst snd rsafe].
      + split; [exact I|]. intro Hr. apply rest_write; [exact Hr|].
        intro Ex. subst x. apply holds_val_eq in Eh. destruct Hr as [v Hv]. rewrite Hv in Eh. injection Eh as <-.
        split; reflexivity.
      + split; [|auto]. destruct (Nat.ltb (S i) retries); exact I.
    - (* REnsureNX *)
      destruct (rmap sh x) as [a|] eqn:Em; cbn [fst snd].
      + split; [destruct (rot && is_tomb a); exact I|auto].
      + split; [exact I|]. intro Hr. apply rest_write; [exact Hr|].
        intro Ex. subst x. destruct Hr as [v Hv]. rewrite Hv in Em. discriminate.
    - (* REnsureTomb *)
      split; [exact I|]. cbn [snd]. intro Hr.
      destruct (holds_val sh x tomb) eqn:Eh; [|exact Hr].
      apply rest_write; [exact Hr|]. intro Ex. subst x. exfalso.
      apply holds_val_eq in Eh. destruct Hr as [v Hv]. rewrite Hv in Eh. injection Eh as E1 E2 _.
      destruct Hnz as [H|H]; congruence.
    - (* RDisc *)
      split; [|cbn [snd]; auto].
      destruct (live (rmap sh x)) as [[[n0 c0] v0]|] eqn:El; cbn [fst]; [|exact I].
      destruct ((n0 =? n) && (c0 =? c)) eqn:Em; cbn [rsafe]; [|exact I].
      apply andb_true_iff in Em. destruct Em as [E1 E2]. apply N.eqb_eq in E1. apply N.eqb_eq in E2. subst n0 c0.
      intro Ex. split; [exact (Hs Ex)|]. split; reflexivity.
    - (* RDiscCas *)
      destruct (holds_val sh x a) eqn:Eh; cbn [fst snd rsafe].
      + split; [exact I|]. intro Hr.
        destruct (N.eq_dec X x) as [E|E].
        * subst x. exfalso. destruct (Hs eq_refl) as [Hne [Ha1 Ha2]].
          apply holds_val_eq in Eh. destruct Hr as [v Hv]. rewrite Hv in Eh. injection Eh as <-.
          cbn [fst snd] in Ha1, Ha2. apply Hne. split; congruence.
        * destruct Hr as [v Hv]. exists v. unfold rput. cbn [rmap]. rewrite upd_other; [exact Hv|exact E].
      + split; [|auto]. destruct (Nat.ltb (S i) retries); cbn [rsafe]; [|exact I].
        intro Ex. exact (proj1 (Hs Ex)).
    - (* RDone *) split; [exact I|auto].
  Qed.

  Lemma rinv_step i0 s i : rinv X B b i0 s -> rinv X B b i0 (sys_step rshared rprog (rstep true rot) s i).
  Proof.
    intros [HF HM]. destruct s as [sh ls]. unfold sys_step. cbn [fst snd] in *.
    destruct (nth_error ls i) as [lo|] eqn:E; [|split; assumption].
    assert (Hlo : rsafe X B b lo).
    { apply (proj1 (Forall_forall _ _) HF). apply (nth_error_In _ _ E). }
    destruct (rsafe_step lo sh Hlo) as [S1 S2].
    destruct (rstep true rot lo sh) as [lo' sh'] eqn:Et. cbn [fst snd] in *.
    split.
    - clear - HF S1. revert i. induction ls as [|h t IH]; intros [|j]; cbn; try exact HF.
      + inversion HF; subst. constructor; assumption.
      + inversion HF; subst. constructor; [assumption|]. apply IH. assumption.
    - cbn [fst snd]. destruct (Nat.eq_dec i i0) as [Ei|Ei].
      + subst i. rewrite E in HM.
        rewrite nth_error_upd_nth_same; [|apply nth_error_Some; rewrite E; discriminate].
        destruct lo; try contradiction.
        * destruct HM as [-> [-> ->]]. cbn [rstep] in Et. injection Et as <- <-. repeat split; reflexivity.
        * destruct HM as [-> [-> ->]]. cbn [rstep] in Et. injection Et as <- <-.
          unfold rest, rwrite. cbn [rmap]. rewrite upd_same. eexists. reflexivity.
        * cbn [rstep] in Et. injection Et as <- <-. exact HM.
      + rewrite nth_error_upd_nth_other; [|exact Ei].
        destruct (nth_error ls i0) as [l0|]; [|contradiction].
        destruct l0; try contradiction; try exact HM.
        apply S2. exact HM.
  Qed.

  Lemma rinv_run i0 sched s : rinv X B b i0 s -> rinv X B b i0 (rrun true rot s sched).
  Proof.
    intro H. unfold rrun.
    apply (inv_all_schedules rshared rprog (rstep true rot) (rinv X B b i0)); [|exact H].
    intros s' i Hs. apply rinv_step. exact Hs.
  Qed.

  Lemma state_login_survives i0 sched s :
    rinv X B b i0 s ->
    nth_error (snd (rrun true rot s sched)) i0 = Some RDone ->
    rloc (fst (rrun true rot s sched)) X = Some (B, b).
  Proof.
    intros H E. destruct (rinv_run i0 sched s H) as [_ HM]. rewrite E in HM.
    destruct HM as [v Hv]. unfold rloc, live. rewrite Hv.
    assert (Ht : is_tomb (B, b, v) = false).
    { unfold is_tomb, rval_eqb, tomb. destruct Hnz as [Hn|Hn]; apply N.eqb_neq in Hn; rewrite Hn; [reflexivity|].
      rewrite andb_false_r. reflexivity. }
    rewrite Ht. reflexivity.
  Qed.
End RStable.

(* the two windows are closed: every interleaving (with all retries) ends at the new login *)
Fixpoint all_scheds (k : nat) (n : nat) : list (list nat) :=
  match k with
  | O => [[]]
  | S k' => flat_map (fun s => map (fun i => i :: s) (seq 0 n)) (all_scheds k' n)
  end.
Definition completed (rot : bool) (s : Threads.st rshared rprog) : Threads.st rshared rprog := rrun true rot s [0;0;0;0;0;0;0;0;1;1]%nat.
Definition loc_is (o : option (N * N)) (n c : N) : bool := loc_eqb o n c.

Lemma cas_state_windows_closed : forall rot : bool,
  forallb (fun sched => loc_is (rloc (fst (completed rot (rrun true rot (rs_old, [RDisc 7 1 10 0; RConnect 7 2 20]) sched))) 7) 2 20)
          (all_scheds 6 2) = true /\
  forallb (fun sched => loc_is (rloc (fst (completed rot (rrun true rot (rs_old, [REnsure 7 1 10 0; RConnect 7 2 20]) sched))) 7) 2 20)
          (all_scheds 6 2) = true.
Proof. intros [|]; split; vm_compute; reflexivity. Qed.

(* the rebuild after a matched delete: with rot the heartbeat of a still-registered older connection rebuilds the record at
   once; without it the SetNX meets the tombstone and the record stays absent (until the tombstone's 1 s ttl, not modelled) *)
Lemma rebuild_over_tombstone :
  rloc (fst (rrun true true (rs_old, [RDisc 7 1 10 0; REnsure 7 3 30 0]) [0;0;1;1;1]%nat)) 7 = Some (3, 30) /\
  rloc (fst (rrun true false (rs_old, [RDisc 7 1 10 0; REnsure 7 3 30 0]) [0;0;1;1;1]%nat)) 7 = None.
Proof. split; vm_compute; reflexivity. Qed.

Definition moving_state_system : Threads.st rshared rprog :=
  (rs_old, [RDisc 7 1 10 0; REnsure 7 1 10 0; RConnect 7 2 20; REnsure 7 2 20 0]).
Lemma moving_state_rinv : rinv 7 2 20 2 moving_state_system.
Proof.
  split.
  - apply Forall_cons; [cbn; intros _ [E _]; discriminate|]. apply Forall_cons; [exact I|].
    apply Forall_cons; [cbn; intros _; split; reflexivity|]. apply Forall_cons; [exact I|]. apply Forall_nil.
  - cbn. repeat split; reflexivity.
Qed.

(* ---- "once the connection is closed the record is gone" — the part the model carries ---- *)
Section RSClose.
  Variables (v : variant) (b : backend) (ttl : N).
  Variables X n c : N.

  Lemma state_after_close pre post :
    X <> 0 ->
    w_conns (fst (rs_run false v b ttl pre)) n c = true ->
    quiet X c post = true ->
    w_ctl (fst (rs_run false v b ttl (pre ++ AuthOK n c X :: post))) n c = Some X ->
    snd (rs_run false v b ttl ((pre ++ AuthOK n c X :: post) ++ [Close n c])) X = None.
  Proof.
    intros HX Hcn Hq Hctl.
    pose proof (state_current v b ttl X n c pre post HX Hcn Hq) as Hcur.
    rewrite rs_run_snoc. unfold rs_step. cbn [snd rs_event]. rewrite Hctl, Hcur.
    cbn [loc_eqb]. rewrite !N.eqb_refl. cbn [andb]. apply upd_same.
  Qed.
End RSClose.

(* without the record's ttl the FULL "after close" statement fails in the model: a connection that was kicked (a new login of
   the client on that node that never completed) is no longer in the registry when it is closed, so nobody calls
   DisconnectClientIfMatch; the record lingers until its ttl (90 s) *)
Definition state_after_close_full_statement (v : variant) (b : backend) (ttl : N) : Prop :=
  forall (h : list event) (X : N),
  (forall m k, w_ctl (fst (rs_run false v b ttl h)) m k <> Some X) ->     (* no connection of X is registered anywhere *)
  snd (rs_run false v b ttl h) X = None.

Lemma state_after_close_full_refuted : ~ state_after_close_full_statement current_variant redis_backend 300000.
Proof.
  intro H.
  specialize (H [Connect 1 10; AuthOK 1 10 7; Connect 1 11; Kick 1 7 11; Close 1 10; Close 1 11] 7).
  assert (Hno : forall m k, w_ctl (fst (rs_run false current_variant redis_backend 300000
                 [Connect 1 10; AuthOK 1 10 7; Connect 1 11; Kick 1 7 11; Close 1 10; Close 1 11])) m k <> Some 7).
  { intros m k. vm_compute.
    destruct m as [|m]; [discriminate|]. destruct m; try discriminate. destruct k as [|k]; [discriminate|].
    destruct k as [k|k|]; try discriminate; destruct k as [k|k|]; try discriminate;
    destruct k as [k|k|]; try discriminate; destruct k as [k|k|]; try discriminate. }
  specialize (H Hno). vm_compute in H. discriminate.
Qed.

(* ---- the rebuild path of the heartbeat (record absent or only a tombstone) racing a login ---- *)
(* after: login (1,10), login (2,20), matched delete of (2,20): only the 1 s tombstone is left *)
Definition rs_tombstoned : rshared := rput (rwrite (rwrite rsh_empty 7 1 10) 7 2 20) 7 (Some tomb).

(* repaired code (SetNX, then CompareAndSwap(tombstone -> rebuilt)): a late heartbeat on the old connection (1,10) racing the
   login (2,30) ends at the login under EVERY interleaving — from a tombstone and from a truly absent record *)
Lemma rebuild_windows_closed :
  forallb (fun sched => loc_is (rloc (fst (completed true (rrun true true (rs_tombstoned, [REnsure 7 1 10 0; RConnect 7 2 30]) sched))) 7) 2 30)
          (all_scheds 5 2) = true /\
  forallb (fun sched => loc_is (rloc (fst (completed true (rrun true true (rsh_empty, [REnsure 7 1 10 0; RConnect 7 2 30]) sched))) 7) 2 30)
          (all_scheds 5 2) = true.
Proof. split; vm_compute; reflexivity. Qed.

(* a rebuild that READS "absent" and then WRITES (seeded C08-20; = the two-call heartbeat) is refuted: the login lands between
   the heartbeat's read and its write, and the rebuilt old location overwrites the most recent handshake *)
Lemma rebuild_read_then_write_refuted :
  exists sched, rloc (fst (rrun false false (rs_tombstoned, [REnsure 7 1 10 0; RConnect 7 2 30]) sched)) 7 = Some (1, 10) /\
                snd (rrun false false (rs_tombstoned, [REnsure 7 1 10 0; RConnect 7 2 30]) sched) = [RDone; RDone].
Proof. exists [0;1;1;0]%nat. vm_compute. split; reflexivity. Qed.

(* Proofs/ClientState.v — lemmas about Model/ClientState.v (C08, client runtime-state record). *)
From TX Require Import Base.Threads.
From TX Require Import Model.ConnState Proofs.ConnState Model.ClientState.
From Coq Require Import Lia.
Open Scope N_scope.

Section RS.
  Variables (v : variant) (b : backend) (ttl : N).
  Variables X n c : N.

  Lemma rs_run_snoc tm h e : rs_run tm v b ttl (h ++ [e]) = rs_step tm v b ttl (rs_run tm v b ttl h) e.
  Proof. unfold rs_run. rewrite fold_left_app. reflexivity. Qed.

  Lemma rs_run_app tm h1 h2 :
    rs_run tm v b ttl (h1 ++ h2) = fold_left (rs_step tm v b ttl) h2 (rs_run tm v b ttl h1).
  Proof. unfold rs_run. rewrite fold_left_app. reflexivity. Qed.

  (* one event that does not disturb (X, c) leaves "the record names (n, c)" alone *)
  Lemma rs_event_keeps w rs e :
    rs X = Some (n, c) -> disturbs X c e = false -> rs_event false w rs e X = Some (n, c).
  Proof.
    intros H Hd. destruct e as [n1 c1|n1 c1 x|n1 c1|n1 x c1|n1 c1|n1 c1|d]; cbn [rs_event]; try exact H.
    - cbn [disturbs] in Hd. apply orb_false_iff in Hd. destruct Hd as [Hx _]. apply N.eqb_neq in Hx.
      destruct (negb (w_conns w n1 c1) || (x =? 0)); [exact H|].
      rewrite upd_other; [exact H|congruence].
    - destruct (w_ctl w n1 c1) as [x|]; [|exact H].
      destruct (rs x) as [l|] eqn:E; [exact H|].
      rewrite upd_other; [exact H|]. intro E'. subst x. rewrite H in E. discriminate.
    - cbn [disturbs] in Hd. apply N.eqb_neq in Hd.
      destruct (w_ctl w n1 c1) as [x|]; [|exact H].
      destruct (loc_eqb (rs x) n1 c1) eqn:El; [|exact H].
      destruct (N.eq_dec X x) as [E|E].
      + subst x. rewrite H in El. cbn [loc_eqb] in El. apply andb_true_iff in El. destruct El as [_ Ec].
        apply N.eqb_eq in Ec. congruence.
      + rewrite upd_other; [exact H|exact E].
  Qed.

  Lemma rs_fold_keeps post : forall s,
    snd s X = Some (n, c) -> quiet X c post = true ->
    snd (fold_left (rs_step false v b ttl) post s) X = Some (n, c).
  Proof.
    induction post as [|e post IH]; intros s H Hq; [exact H|].
    cbn [quiet forallb] in Hq. apply andb_true_iff in Hq. destruct Hq as [Hd Hq]. apply negb_true_iff in Hd.
    cbn [fold_left]. apply IH; [|exact Hq]. unfold rs_step. cbn [snd]. apply rs_event_keeps; assumption.
  Qed.

  Lemma state_current pre post : state_current_at false v b ttl X n c pre post.
  Proof.
    intros HX Hcn Hq. rewrite rs_run_app. cbn [fold_left].
    apply rs_fold_keeps; [|exact Hq].
    unfold rs_step. cbn [snd rs_event]. rewrite Hcn. apply N.eqb_neq in HX. rewrite HX. cbn [negb orb].
    apply upd_same.
  Qed.
End RS.

(* the pinned behaviour "the heartbeat's touch re-writes node/conn": a late heartbeat of the OLD connection moves the
   record back, and the old node's cleanup then deletes it although the client is connected elsewhere *)
Definition rs_wit_pre : list event := [Connect 1 10; AuthOK 1 10 7; Connect 2 20].
Definition rs_wit_post_moved : list event := [Heartbeat 1 10].
Definition rs_wit_post_deleted : list event := [Heartbeat 1 10; Heartbeat 2 20; Heartbeat 1 10; Connect 1 11].

Lemma touch_moves_refuted :
  exists X n c pre post, ~ state_current_at true current_variant redis_backend 300000 X n c pre post.
Proof.
  exists 7, 2, 20, rs_wit_pre, rs_wit_post_moved. intro H.
  assert (HX : 7 <> 0) by discriminate.
  specialize (H HX eq_refl eq_refl). vm_compute in H. discriminate.
Qed.

Lemma state_premises_satisfiable :
  7 <> 0 /\ w_conns (fst (rs_run false current_variant redis_backend 300000 rs_wit_pre)) 2 20 = true /\
  quiet 7 20 (rs_wit_post_deleted ++ [Close 1 10; Tick 5]) = true /\
  snd (rs_run false current_variant redis_backend 300000
         (rs_wit_pre ++ AuthOK 2 20 7 :: rs_wit_post_deleted ++ [Close 1 10; Tick 5])) 7 = Some (2, 20) /\
  (* the same history under touch_moves: the old node's cleanup finds "its" record and deletes it *)
  snd (rs_run true current_variant redis_backend 300000
         (rs_wit_pre ++ AuthOK 2 20 7 :: [Heartbeat 1 10; Close 1 10])) 7 = None.
Proof. split; [discriminate|]. repeat split; vm_compute; reflexivity. Qed.

(* ---- storage-call granularity: the service's read-modify-write windows (candidates; HEAD code) ---- *)

(* DisconnectClientIfMatch(old) || ConnectClient(new): the new login's record is deleted *)
Lemma disconnect_window_refuted :
  exists sched, fst (rrun (rs_old, [RDisc 7 1 10; RConnect 7 2 20]) sched) 7 = None /\
                snd (rrun (rs_old, [RDisc 7 1 10; RConnect 7 2 20]) sched) = [RDone; RDone].
Proof. exists [0;1;1;0]%nat. vm_compute. split; reflexivity. Qed.

(* EnsureClientOnline(old connection) || ConnectClient(new): the touch writes the OLD location back *)
Lemma touch_window_refuted :
  exists sched, fst (rrun (rs_old, [REnsure 7 1 10; RConnect 7 2 20]) sched) 7 = Some (1, 10) /\
                snd (rrun (rs_old, [REnsure 7 1 10; RConnect 7 2 20]) sched) = [RDone; RDone].
Proof. exists [0;1;1;0]%nat. vm_compute. split; reflexivity. Qed.

(* without interleaving (each service call atomic) both end at the new location *)
Lemma windows_sequential_ok :
  fst (rrun (rs_old, [RDisc 7 1 10; RConnect 7 2 20]) [0;0;1;1]%nat) 7 = Some (2, 20) /\
  fst (rrun (rs_old, [RDisc 7 1 10; RConnect 7 2 20]) [1;1;0;0]%nat) 7 = Some (2, 20) /\
  fst (rrun (rs_old, [REnsure 7 1 10; RConnect 7 2 20]) [0;0;1;1]%nat) 7 = Some (2, 20) /\
  fst (rrun (rs_old, [REnsure 7 1 10; RConnect 7 2 20]) [1;1;0;0]%nat) 7 = Some (2, 20).
Proof. repeat split; vm_compute; reflexivity. Qed.

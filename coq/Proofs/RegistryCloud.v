(* Proofs/RegistryCloud.v — C07: the registry view does not depend on what cloud control answers. *)
From Coq Require Import List NArith Bool Lia.
From TX Require Import Base.Threads Model.Registry Model.RegistryCloud Proofs.Registry Proofs.RegistryCounts.
Import ListNotations.
Open Scope N_scope.

Lemma remove_cc_indep cc c s : remove_control_connection_cc cc c s = registry_remove c s.
Proof.
  unfold remove_control_connection_cc. destruct (get c (reg s)) as [r|].
  - destruct (c_auth r && (0 <? c_cid r)); [|reflexivity]. destruct cc as [[|[|]]|]; reflexivity.
  - reflexivity.
Qed.

Lemma close_cc_indep cc c s : close_connection_cc cc c s = close_conn c s.
Proof. unfold close_connection_cc, close_conn. rewrite remove_cc_indep. reflexivity. Qed.

Lemma sweep_one_cc_indep cc s e : sweep_one_cc cc s e = sweep_one s e.
Proof.
  destruct e as [c r]. unfold sweep_one_cc, sweep_one. destruct cc as [[|b]|]; rewrite close_cc_indep; reflexivity.
Qed.

Lemma heartbeat_cc_indep k failed c s : heartbeat_cc failed c s = fst (step Current k s (Heartbeat c)).
Proof.
  unfold heartbeat_cc. cbn [step]. destruct (get c (reg s)) as [r|]; [|reflexivity].
  destruct (0 <? c_cid r); destruct failed; reflexivity.
Qed.

(* for EVERY answer of cloud control (error, disconnected, skipped, or none configured): after CloseConnection(c) no lookup
   returns c, it is no session connection, its transport is closed if it was known, and the counts drop by what c held *)
Theorem close_under_any_cloud_fault k ops cc c :
  let s := run Current k init ops in
  let s' := close_connection_cc cc c s in
  by_conn s' c = None /\ (forall x, by_client s' x <> Some c) /\ mem c (sess s') = false /\
  (mem c (sess s) = true \/ by_conn s c <> None -> mem c (closed s') = true) /\
  counts s = (let '(t, ct, tn) := counts s' in
              (t + b2n (mem c (sess s)), ct + b2n (has (get c (reg s))), tn + b2n (has (get c (tun s))))).
Proof.
  intros s s'. unfold s'. rewrite close_cc_indep.
  assert (Hi : Inv s) by (apply inv_run; exact inv_init).
  assert (Hw : WF2 s) by (apply wf2_run; exact wf2_init).
  destruct (close_conn_post c s Hi) as [H1 [H2 [H3 H4]]].
  repeat split; try assumption. apply counts_close_conn; assumption.
Qed.

(* the seeded variant (notify first, return early on error) is refuted: a failing notification leaves the closed connection
   registered and indexed *)
Lemma notify_first_refuted :
  exists ops c x,
    let s := run Current k0 init ops in
    let s' := close_connection_notify_first (Some CErr) c s in
    by_client s' x = Some c /\ mem c (closed s') = true /\ mem c (sess s') = false /\ counts s' = (0, 1, 0).
Proof. exists [Accept 1; Handshake 1 0 7 true], 1, 7. vm_compute. repeat split. Qed.

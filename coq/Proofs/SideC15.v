(* Proofs/SideC15.v — side conditions over values regenerated from /repo (Gen/C15.v) *)
From TX Require Import Model.IdGen Gen.C15.
From Coq Require Import Lia.

Lemma attempts_positive : 0 < MaxAttempts.
Proof. vm_compute. lia. Qed.
Lemma id_ranges_nonempty : (ClientIDMin < ClientIDMax)%N /\ (NodeIDMin <= NodeIDMax)%N.
Proof. split; vm_compute; [reflexivity|discriminate]. Qed.
(* the shipped in-memory store implements the atomic set-if-absent, so Generate takes the SetNX branch *)
Lemma shipped_store_is_atomic : memory_store_has_SetNX = true.
Proof. reflexivity. Qed.
(* the regenerated heartbeat period (literal of time.NewTicker in heartbeatLoop) is positive and within the lease lifetime *)
Lemma heartbeat_within_lease : 0 < NodeHeartbeatSeconds /\ NodeHeartbeatSeconds <= NodeLockTTLSeconds.
Proof. vm_compute. lia. Qed.

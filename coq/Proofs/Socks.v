(* Proofs/Socks.v — lemmas about Model/Socks.v (C20) *)
From TX Require Import Model.Socks.
From Coq Require Import ZArith ZifyN ZifyNat ZifyBool.
Ltac Zify.zify_post_hook ::= Z.div_mod_to_equations.

Open Scope N_scope.

(* ------------------------------------------------------------------------------------------ *)
(* list slicing with N indices                                                                *)
(* ------------------------------------------------------------------------------------------ *)
Lemma lenN_cons {A} (x : A) l : lenN (x :: l) = 1 + lenN l.
Proof. unfold lenN. cbn [length]. lia. Qed.
Lemma lenN_nil {A} : lenN (@nil A) = 0.
Proof. reflexivity. Qed.

Lemma skipn_skipn' {A} (a b : nat) (l : list A) : skipn a (skipn b l) = skipn (b + a) l.
Proof.
  revert l. induction b as [|b IH]; intros l; [reflexivity|].
  destruct l as [|x l]; [now rewrite !skipn_nil|]. cbn [Nat.add skipn]. apply IH.
Qed.

Lemma firstn_plus {A} (a b : nat) (l : list A) : firstn (a + b) l = firstn a l ++ firstn b (skipn a l).
Proof.
  revert l. induction a as [|a IH]; intros l; [reflexivity|].
  destruct l as [|x l]; [now rewrite !firstn_nil|]. cbn [Nat.add firstn skipn app]. f_equal. apply IH.
Qed.

Lemma lenN_firstn {A} n (l : list A) : n <= lenN l -> lenN (firstn (N.to_nat n) l) = n.
Proof. unfold lenN. intros H. rewrite firstn_length. lia. Qed.
Lemma lenN_skipn {A} n (l : list A) : lenN (skipn (N.to_nat n) l) = lenN l - n.
Proof. unfold lenN. rewrite skipn_length. lia. Qed.
Lemma skipn_lenN_all {A} (l : list A) n : lenN l <= n -> skipn (N.to_nat n) l = [].
Proof. unfold lenN. intros H. apply skipn_all2. lia. Qed.
Lemma dropN_dropN {A} a b (l : list A) :
  skipn (N.to_nat b) (skipn (N.to_nat a) l) = skipn (N.to_nat (a + b)) l.
Proof. rewrite skipn_skipn', N2Nat.inj_add. reflexivity. Qed.
Lemma dropN_cons {A} n (x : A) l : skipn (N.to_nat (1 + n)) (x :: l) = skipn (N.to_nat n) l.
Proof. rewrite N2Nat.inj_add. reflexivity. Qed.
Lemma takeN_app_exact {A} n (a b : list A) : lenN a = n -> firstn (N.to_nat n) (a ++ b) = a.
Proof.
  unfold lenN. intros H. rewrite firstn_app.
  replace (N.to_nat n - length a)%nat with 0%nat by lia.
  rewrite (@firstn_all2 _ (N.to_nat n) a) by lia. cbn [firstn]. apply app_nil_r.
Qed.
Lemma dropN_app_exact {A} n (a b : list A) : lenN a = n -> skipn (N.to_nat n) (a ++ b) = b.
Proof.
  unfold lenN. intros H. rewrite skipn_app.
  replace (N.to_nat n - length a)%nat with 0%nat by lia.
  rewrite (@skipn_all2 _ (N.to_nat n) a) by lia. reflexivity.
Qed.

Lemma bytes_eqb_eq a : forall b, bytes_eqb a b = true -> a = b.
Proof.
  induction a as [|x a IH]; intros [|y b] H; cbn in H; try discriminate; [reflexivity|].
  apply andb_prop in H. destruct H as [H1 H2]. apply N.eqb_eq in H1. subst y. f_equal. now apply IH.
Qed.
Lemma bytes_eqb_refl a : bytes_eqb a a = true.
Proof. induction a as [|x a IH]; [reflexivity|]. cbn. now rewrite N.eqb_refl, IH. Qed.

Lemma existsb_eqb_sym (w : N) l : existsb (N.eqb w) l = existsb (fun m => m =? w) l.
Proof. induction l as [|x l IH]; [reflexivity|]. cbn [existsb]. now rewrite IH, N.eqb_sym. Qed.

(* ------------------------------------------------------------------------------------------ *)
(* Part A: the two interpreters agree, for every chunk oracle, and the oracle run never runs   *)
(* out of fuel                                                                                 *)
(* ------------------------------------------------------------------------------------------ *)
Theorem run_rd_spec A (p : prog A) : forall r out,
  exists r', run_rd p r out = Some (fst (fst (run_list p (rest r) out)), r', snd (run_list p (rest r) out))
             /\ rest r' = snd (fst (run_list p (rest r) out)) /\ endk r' = endk r.
Proof.
  induction p as [a | n k IH | bs k IH]; intros r out.
  - exists r. cbn. auto.
  - cbn [run_rd run_list].
    destruct (read_full_spec (length (rest r)) n r (le_n _)) as [Hok Hend].
    destruct (N.ltb_spec (lenN (rest r)) n) as [Hlt | Hge].
    + destruct (Hend Hlt) as (r1 & E & Hr1 & He1). rewrite E.
      destruct (IH None r1 out) as (r' & E' & Hr' & He'). rewrite Hr1 in E', Hr'.
      exists r'. split; [exact E'|]. split; [exact Hr'|congruence].
    + destruct (Hok Hge) as (r1 & E & Hr1 & He1). rewrite E.
      destruct (IH (Some (firstn (N.to_nat n) (rest r))) r1 out) as (r' & E' & Hr' & He').
      rewrite Hr1 in E', Hr'.
      exists r'. split; [exact E'|]. split; [exact Hr'|congruence].
  - cbn [run_rd run_list]. apply IH.
Qed.

Corollary run_rd_total A (p : prog A) r out : run_rd p r out <> None.
Proof. destruct (run_rd_spec A p r out) as (r' & E & _). rewrite E. discriminate. Qed.

(* observable part of a run over the oracle: result, unread bytes, bytes written *)
Definition rd_obs {A} (x : option (A * rd * list byte)) : option (A * list byte * list byte) :=
  match x with Some (a, r, o) => Some (a, rest r, o) | None => None end.

Corollary run_rd_obs A (p : prog A) s cuts out :
  rd_obs (run_rd p (mkrd s cuts) out) = Some (run_list p s out).
Proof.
  destruct (run_rd_spec A p (mkrd s cuts) out) as (r' & E & Hr & _). rewrite E. cbn [rd_obs rest mkrd] in *.
  rewrite Hr. now destruct (run_list p s out) as [[a s'] o].
Qed.

Corollary run_rd_chunk_independent A (p : prog A) s c1 c2 out :
  rd_obs (run_rd p (mkrd s c1) out) = rd_obs (run_rd p (mkrd s c2) out).
Proof. now rewrite !run_rd_obs. Qed.

(* ------------------------------------------------------------------------------------------ *)
(* Part B/C: address + port                                                                    *)
(* ------------------------------------------------------------------------------------------ *)
Lemma addr_form_of_if atyp :
  addr_form_of atyp = if atyp =? 1 then FixedLen 4 else if atyp =? 3 then LenPrefixed
                      else if atyp =? 4 then FixedLen 16 else UnknownForm.
Proof.
  destruct (N.eqb_spec atyp 1) as [->|H1]; [reflexivity|].
  destruct (N.eqb_spec atyp 3) as [->|H3]; [reflexivity|].
  destruct (N.eqb_spec atyp 4) as [->|H4]; [reflexivity|].
  destruct atyp as [|p]; [reflexivity|].
  destruct p as [[[p|p|]|[p|p|]|]|[[p|p|]|[p|p|]|]|]; try reflexivity; congruence.
Qed.

Section AddrPort.
  Context {A : Type}.
  Variable fail : prog A.
  Variable done : N -> list byte -> N -> prog A.

  Lemma read_addr_body_spec atyp n s out :
    run_list (read_addr_body fail done atyp n) s out =
    if lenN s <? n + 2 then run_list fail [] out
    else run_list (done atyp (firstn (N.to_nat n) s) (de16 (firstn 2 (skipn (N.to_nat n) s))))
                  (skipn (N.to_nat (n + 2)) s) out.
  Proof.
    unfold read_addr_body, read_port. cbn [run_list].
    destruct (N.ltb_spec (lenN s) n) as [H1|H1].
    - destruct (N.ltb_spec (lenN s) (n + 2)) as [_|H2]; [reflexivity|lia].
    - cbn [run_list]. rewrite lenN_skipn.
      destruct (N.ltb_spec (lenN s - n) 2) as [H2|H2];
        destruct (N.ltb_spec (lenN s) (n + 2)) as [H3|H3]; try lia; [reflexivity|].
      rewrite dropN_dropN. reflexivity.
  Qed.

  Lemma read_addr_port_spec atyp bad s out :
    run_list (read_addr_port fail done atyp bad) s out =
    match ref_addr_port atyp s with
    | AUnknown => run_list bad s out
    | AIncomplete => run_list fail [] out
    | AOk a p n => run_list (done atyp a p) (skipn (N.to_nat n) s) out
    end.
  Proof.
    unfold read_addr_port, ref_addr_port. rewrite addr_form_of_if.
    unfold ATYP_V4, ATYP_DOMAIN, ATYP_V6.
    destruct (atyp =? 1).
    { rewrite read_addr_body_spec. destruct (lenN s <? 4 + 2); reflexivity. }
    destruct (atyp =? 3).
    { destruct s as [|l tl]; [reflexivity|].
      cbn [run_list]. rewrite lenN_cons.
      destruct (N.ltb_spec (1 + lenN tl) 1) as [H|_]; [lia|].
      change (N.to_nat 1) with 1%nat. cbn [firstn skipn byte_at nth].
      rewrite read_addr_body_spec.
      destruct (N.ltb_spec (lenN tl) (l + 2)) as [H1|H1];
        destruct (N.ltb_spec (1 + lenN tl) (1 + l + 2)) as [H2|H2]; try lia; [reflexivity|].
      unfold sub. rewrite <- !N.add_assoc, !dropN_cons.
      change (N.to_nat 1) with 1%nat. cbn [skipn]. reflexivity. }
    destruct (atyp =? 4).
    { rewrite read_addr_body_spec. destruct (lenN s <? 16 + 2); reflexivity. }
    reflexivity.
  Qed.
End AddrPort.

(* ------------------------------------------------------------------------------------------ *)
(* request                                                                                     *)
(* ------------------------------------------------------------------------------------------ *)
Lemma skipn_lenN_self {A} (l : list A) : skipn (N.to_nat (lenN l)) l = [].
Proof. apply skipn_lenN_all. lia. Qed.

Theorem request_spec cmd_ok rbv s out :
  run_list (request_prog cmd_ok rbv) s out =
  (o_res (expected_request rbv cmd_ok s),
   skipn (N.to_nat (o_used (expected_request rbv cmd_ok s))) s,
   out ++ o_out (expected_request rbv cmd_ok s)).
Proof.
  unfold request_prog, expected_request, ref_request. cbn [run_list].
  destruct s as [|ver [|cmd [|rsv [|atyp tl]]]];
    try (cbn [o_res o_used o_out]; rewrite skipn_lenN_self, app_nil_r; reflexivity).
  assert (Hlen : lenN (ver :: cmd :: rsv :: atyp :: tl) <? 4 = false)
    by (rewrite !lenN_cons; apply N.ltb_ge; lia).
  rewrite Hlen. clear Hlen.
  change (N.to_nat 4) with 4%nat. cbn [firstn skipn byte_at nth]. unfold VER.
  destruct (ver =? 5); cbn [negb].
  2:{ destruct rbv; cbn [run_list o_res o_used o_out]; rewrite ?app_nil_r; reflexivity. }
  destruct (cmd_ok cmd); cbn [negb]; [|reflexivity].
  rewrite read_addr_port_spec.
  destruct (ref_addr_port atyp tl) as [| |a p n]; cbn [run_list o_res o_used o_out].
  - reflexivity.
  - rewrite skipn_lenN_self, app_nil_r. reflexivity.
  - rewrite app_nil_r. rewrite N2Nat.inj_add. change (N.to_nat 4) with 4%nat. reflexivity.
Qed.

(* ------------------------------------------------------------------------------------------ *)
(* RFC 1929 sub-negotiation                                                                    *)
(* ------------------------------------------------------------------------------------------ *)
Theorem userpass_spec cred s out :
  run_list (userpass_prog cred) s out =
  (g_ok (expected_userpass cred s),
   skipn (N.to_nat (g_used (expected_userpass cred s))) s,
   out ++ g_out (expected_userpass cred s)).
Proof.
  unfold userpass_prog, expected_userpass, ref_userpass. cbn [run_list].
  destruct s as [|ver [|ulen tl]];
    try (cbn [g_ok g_used g_out]; rewrite skipn_lenN_self, app_nil_r; reflexivity).
  assert (Hlen : lenN (ver :: ulen :: tl) <? 2 = false)
    by (rewrite !lenN_cons; apply N.ltb_ge; lia).
  rewrite Hlen. clear Hlen.
  change (N.to_nat 2) with 2%nat. cbn [firstn skipn byte_at nth]. unfold USERPASS_VER.
  destruct (ver =? 1); cbn [negb].
  2:{ cbn [run_list g_ok g_used g_out]. rewrite app_nil_r. reflexivity. }
  cbn [run_list].
  destruct (N.ltb_spec (lenN tl) ulen) as [H1|H1].
  { destruct (N.ltb_spec (lenN tl) (ulen + 1)) as [_|H2]; [|lia].
    cbn [run_list g_ok g_used g_out]. rewrite skipn_lenN_self, app_nil_r. reflexivity. }
  cbn [run_list]. rewrite lenN_skipn.
  destruct (N.ltb_spec (lenN tl - ulen) 1) as [H2|H2];
    destruct (N.ltb_spec (lenN tl) (ulen + 1)) as [H3|H3]; try lia.
  { cbn [run_list g_ok g_used g_out]. rewrite skipn_lenN_self, app_nil_r. reflexivity. }
  cbn [run_list]. unfold sub.
  set (plen := byte_at 0 (firstn (N.to_nat 1) (skipn (N.to_nat ulen) tl))).
  rewrite dropN_dropN, lenN_skipn.
  destruct (N.ltb_spec (lenN tl - (ulen + 1)) plen) as [H4|H4];
    destruct (N.ltb_spec (lenN tl) (ulen + 1 + plen)) as [H5|H5]; try lia.
  { cbn [run_list g_ok g_used g_out]. rewrite skipn_lenN_self, app_nil_r. reflexivity. }
  cbn [run_list g_ok g_used g_out]. change (N.to_nat 0) with 0%nat. cbn [skipn].
  rewrite dropN_dropN.
  replace (2 + ulen + 1 + plen) with (1 + (1 + (ulen + 1 + plen))) by lia.
  rewrite !dropN_cons. reflexivity.
Qed.

(* ------------------------------------------------------------------------------------------ *)
(* greeting (adapter, repaired) and the whole adapter / listener connection                    *)
(* ------------------------------------------------------------------------------------------ *)
Lemma adapter_want_not_nomatch auth : adapter_want auth =? AUTH_NOMATCH = false.
Proof. destruct auth; reflexivity. Qed.

Theorem adapter_greeting_spec auth s out :
  run_list (adapter_greeting auth) s out =
  (g_ok (expected_greeting true auth s),
   skipn (N.to_nat (g_used (expected_greeting true auth s))) s,
   out ++ g_out (expected_greeting true auth s)).
Proof.
  unfold adapter_greeting, expected_greeting, ref_greeting. cbn [run_list].
  destruct s as [|ver [|nm tl]];
    try (cbn [g_ok g_used g_out]; rewrite skipn_lenN_self, app_nil_r; reflexivity).
  assert (Hlen : lenN (ver :: nm :: tl) <? 2 = false)
    by (rewrite !lenN_cons; apply N.ltb_ge; lia).
  rewrite Hlen. clear Hlen.
  change (N.to_nat 2) with 2%nat. cbn [firstn skipn byte_at nth]. unfold VER.
  destruct (ver =? 5); cbn [negb].
  2:{ cbn [run_list g_ok g_used g_out]. rewrite app_nil_r. reflexivity. }
  cbn [run_list].
  destruct (N.eqb_spec nm 0) as [->|Hnm].
  { cbn [N.to_nat firstn skipn lenN]. destruct (N.ltb_spec (lenN tl) 0) as [H|_]; [lia|].
    unfold greeting_tail. cbn [existsb]. cbn [run_list].
    rewrite N.eqb_refl. cbn [run_list g_ok g_used g_out]. reflexivity. }
  destruct (N.ltb_spec (lenN tl) nm) as [H1|H1].
  { cbn [run_list g_ok g_used g_out]. rewrite skipn_lenN_self, app_nil_r. reflexivity. }
  unfold greeting_tail, sub. change (N.to_nat 0) with 0%nat. cbn [skipn].
  rewrite existsb_eqb_sym.
  destruct (existsb (fun m => m =? adapter_want auth) (firstn (N.to_nat nm) tl)).
  - cbn [run_list]. rewrite adapter_want_not_nomatch.
    destruct auth as [cred|].
    + rewrite userpass_spec. cbn [g_ok g_used g_out adapter_want].
      replace (2 + nm) with (1 + (1 + nm)) by lia. rewrite !dropN_cons.
      rewrite dropN_dropN. rewrite <- app_assoc.
      replace (1 + (1 + nm) + g_used (expected_userpass cred (skipn (N.to_nat nm) tl)))
        with (1 + (1 + (nm + g_used (expected_userpass cred (skipn (N.to_nat nm) tl))))) by lia.
      rewrite !dropN_cons. reflexivity.
    + cbn [run_list g_ok g_used g_out adapter_want].
      replace (2 + nm) with (1 + (1 + nm)) by lia. rewrite !dropN_cons. reflexivity.
  - cbn [run_list]. rewrite N.eqb_refl. cbn [run_list g_ok g_used g_out].
    replace (2 + nm) with (1 + (1 + nm)) by lia. rewrite !dropN_cons. reflexivity.
Qed.

(* the greeting half of Listener.Handshake, cut out for the proof: what runs before request_prog *)
Theorem listener_spec s out :
  run_list listener_handshake s out =
  (o_res (expected_listener s),
   skipn (N.to_nat (o_used (expected_listener s))) s,
   out ++ o_out (expected_listener s)).
Proof.
  unfold listener_handshake, expected_listener, expected_session, expected_greeting, ref_greeting.
  cbn [run_list adapter_want].
  destruct s as [|ver [|nm tl]];
    try (cbn [g_ok g_used g_out o_res o_used o_out]; rewrite skipn_lenN_self, app_nil_r; reflexivity).
  assert (Hlen : lenN (ver :: nm :: tl) <? 2 = false)
    by (rewrite !lenN_cons; apply N.ltb_ge; lia).
  rewrite Hlen. clear Hlen.
  change (N.to_nat 2) with 2%nat. cbn [firstn skipn byte_at nth]. unfold VER.
  destruct (ver =? 5); cbn [negb].
  2:{ cbn [run_list g_ok g_used g_out o_res o_used o_out]. rewrite app_nil_r. reflexivity. }
  destruct (N.eqb_spec nm 0) as [->|Hnm].
  { cbn [run_list g_ok g_used g_out o_res o_used o_out]. rewrite app_nil_r. reflexivity. }
  cbn [run_list].
  destruct (N.ltb_spec (lenN tl) nm) as [H1|H1].
  { cbn [run_list g_ok g_used g_out o_res o_used o_out]. rewrite skipn_lenN_self, app_nil_r. reflexivity. }
  unfold sub. change (N.to_nat 0) with 0%nat. cbn [skipn].
  unfold AUTH_NONE. rewrite existsb_eqb_sym.
  destruct (existsb (fun m => m =? 0) (firstn (N.to_nat nm) tl)).
  - cbn [run_list]. change (0 =? AUTH_NOMATCH) with false. cbv iota.
    rewrite request_spec. cbn [g_ok g_used g_out o_res o_used o_out].
    replace (2 + nm) with (1 + (1 + nm)) by lia. rewrite !dropN_cons.
    rewrite dropN_dropN, <- app_assoc.
    replace (1 + (1 + nm) + o_used (expected_request true listener_cmd_ok (skipn (N.to_nat nm) tl)))
      with (1 + (1 + (nm + o_used (expected_request true listener_cmd_ok (skipn (N.to_nat nm) tl))))) by lia.
    rewrite !dropN_cons. reflexivity.
  - cbn [run_list]. change (AUTH_NOMATCH =? AUTH_NOMATCH) with true. cbv iota.
    cbn [run_list g_ok g_used g_out o_res o_used o_out].
    replace (2 + nm) with (1 + (1 + nm)) by lia. rewrite !dropN_cons. reflexivity.
Qed.

(* (1) Listener.Handshake over ANY chunk oracle = what the reference prescribes *)
Theorem listener_matches_rfc s cuts :
  rd_obs (run_rd listener_handshake (mkrd s cuts) []) =
  Some (o_res (expected_listener s), skipn (N.to_nat (o_used (expected_listener s))) s,
        o_out (expected_listener s)).
Proof. rewrite run_rd_obs, listener_spec. reflexivity. Qed.

(* (1) the adapter connection (repaired greeting) over ANY chunk oracle *)
Definition adapter_expected_obs (auth : option (list byte * list byte)) (s : list byte) : adapter_obs :=
  let g := expected_greeting true auth s in
  let e := expected_adapter auth s in
  {| a_hs_ok := g_ok g; a_hs_left := skipn (N.to_nat (g_used g)) s; a_req := o_res e;
     a_out := o_out e; a_left := skipn (N.to_nat (o_used e)) s |}.

Theorem adapter_matches_rfc auth s cuts :
  adapter_session false auth (mkrd s cuts) = Some (adapter_expected_obs auth s).
Proof.
  unfold adapter_session, adapter_expected_obs, expected_adapter, expected_session.
  destruct (run_rd_spec _ (adapter_greeting auth) (mkrd s cuts) []) as (r1 & E1 & Hr1 & _).
  rewrite E1. cbn [rest mkrd] in *. rewrite adapter_greeting_spec in *. cbn [fst snd app] in *.
  destruct (g_ok (expected_greeting true auth s)).
  2:{ rewrite Hr1. reflexivity. }
  unfold adapter_request.
  destruct (run_rd_spec _ (request_prog adapter_cmd_ok false) r1 (g_out (expected_greeting true auth s)))
    as (r2 & E2 & Hr2 & _).
  rewrite E2. rewrite Hr1 in *. rewrite request_spec in *. cbn [fst snd] in *.
  rewrite Hr2, dropN_dropN. reflexivity.
Qed.

(* (2) no over-read, stated on its own: when a request is accepted, what is left unread on the
   connection is exactly what follows the greeting and the request messages *)
Theorem listener_no_overread s cuts q r' out :
  run_rd listener_handshake (mkrd s cuts) [] = Some (Some q, r', out) ->
  exists glen rlen,
    ref_greeting AUTH_NONE s = GSelected glen /\
    ref_request listener_cmd_ok (skipn (N.to_nat glen) s) = RAccept q rlen /\
    rest r' = skipn (N.to_nat (glen + rlen)) s /\ out = [5; 0].
Proof.
  intros H. pose proof (listener_matches_rfc s cuts) as M. rewrite H in M. cbn [rd_obs] in M.
  unfold expected_listener, expected_session, expected_greeting in M. cbn [adapter_want] in M.
  unfold AUTH_NONE in *.
  destruct (ref_greeting 0 s) as [| | |n|n]; cbn [g_ok g_used g_out o_res o_used o_out] in M; try discriminate.
  unfold expected_request in M.
  destruct (ref_request listener_cmd_ok (skipn (N.to_nat n) s)) as [| | | |q' rl] eqn:Er;
    cbn [o_res o_used o_out] in M; try discriminate.
  exists n, rl. injection M as M1 M2 M3. subst. auto.
Qed.

Theorem adapter_no_overread auth s cuts o q :
  adapter_session false auth (mkrd s cuts) = Some o -> a_req o = Some q ->
  exists glen rlen,
    g_ok (expected_greeting true auth s) = true /\ g_used (expected_greeting true auth s) = glen /\
    a_hs_left o = skipn (N.to_nat glen) s /\
    ref_request adapter_cmd_ok (skipn (N.to_nat glen) s) = RAccept q rlen /\
    a_left o = skipn (N.to_nat (glen + rlen)) s.
Proof.
  rewrite adapter_matches_rfc. intros H Hq. injection H as <-.
  unfold adapter_expected_obs, expected_adapter, expected_session in *. cbn [a_req a_hs_left a_left] in *.
  destruct (g_ok (expected_greeting true auth s)); cbn [o_res o_used] in *; [|discriminate].
  unfold expected_request in *.
  destruct (ref_request adapter_cmd_ok (skipn (N.to_nat (g_used (expected_greeting true auth s))) s))
    as [| | | |q' rl] eqn:Er; cbn [o_res o_used] in *; try discriminate.
  injection Hq as ->. exists (g_used (expected_greeting true auth s)), rl. auto.
Qed.
(* ------------------------------------------------------------------------------------------ *)
(* UDP request header                                                                          *)
(* ------------------------------------------------------------------------------------------ *)
(* (1) parseUDPHeader (repaired) = reference, for every datagram *)
Theorem udp_parse_is_ref d : udp_parse udp_min_current d = ref_udp d.
Proof.
  unfold udp_parse, ref_udp, udp_min_current.
  destruct d as [|r0 [|r1 [|frag [|atyp tl]]]]; try reflexivity.
  assert (Hlen : lenN (r0 :: r1 :: frag :: atyp :: tl) = 4 + lenN tl) by (rewrite !lenN_cons; lia).
  rewrite Hlen. cbn [byte_at nth].
  destruct (N.ltb_spec (4 + lenN tl) 4) as [H|_]; [lia|].
  destruct (frag =? 0); cbn [negb]; [|reflexivity].
  unfold ref_addr_port. rewrite addr_form_of_if. unfold ATYP_V4, ATYP_DOMAIN, ATYP_V6, sub.
  destruct (atyp =? 1).
  { destruct (N.ltb_spec (4 + lenN tl) 10) as [H1|H1];
      destruct (N.ltb_spec (lenN tl) (4 + 2)) as [H2|H2]; try lia; reflexivity. }
  destruct (atyp =? 3).
  { destruct tl as [|l tl']; [reflexivity|]. cbn [nth].
    rewrite !lenN_cons.
    destruct (N.ltb_spec (4 + (1 + lenN tl')) 5) as [H|_]; [lia|].
    destruct (N.ltb_spec (4 + (1 + lenN tl')) (5 + l + 2)) as [H1|H1];
      destruct (N.ltb_spec (1 + lenN tl') (1 + l + 2)) as [H2|H2]; try lia; [reflexivity|].
    replace (5 + l + 2) with (1 + (1 + (1 + (1 + (1 + (l + 2)))))) by lia.
    replace (5 + l) with (1 + (1 + (1 + (1 + (1 + l))))) by lia.
    replace (1 + l + 2) with (1 + (l + 2)) by lia.
    rewrite !dropN_cons. change (N.to_nat 5) with 5%nat. change (N.to_nat 1) with 1%nat.
    cbn [skipn]. reflexivity. }
  destruct (atyp =? 4).
  { destruct (N.ltb_spec (4 + lenN tl) 22) as [H1|H1];
      destruct (N.ltb_spec (lenN tl) (16 + 2)) as [H2|H2]; try lia; reflexivity. }
  reflexivity.
Qed.

(* what an accepted DST.ADDR DST.PORT is: the slice is exactly the RFC encoding of the result *)
Lemma firstn2_cases (l : list byte) : (2 <= length l)%nat -> exists x y, firstn 2 l = [x; y].
Proof. destruct l as [|x [|y l]]; cbn [length]; try lia. intros _. now exists x, y. Qed.

Lemma fixed_ok n s : n + 2 <= lenN s -> wf_bytes s ->
  firstn (N.to_nat (n + 2)) s = firstn (N.to_nat n) s ++ be16 (de16 (firstn 2 (skipn (N.to_nat n) s)))
  /\ de16 (firstn 2 (skipn (N.to_nat n) s)) < 65536.
Proof.
  intros Hl Hwf.
  assert (H2 : (2 <= length (skipn (N.to_nat n) s))%nat).
  { rewrite skipn_length. unfold lenN in Hl. lia. }
  destruct (firstn2_cases _ H2) as (x & y & E). rewrite E.
  assert (Hw : wf_bytes [x; y]) by (rewrite <- E; apply wf_bytes_firstn, wf_bytes_skipn, Hwf).
  split.
  - rewrite N2Nat.inj_add, firstn_plus. change (N.to_nat 2) with 2%nat. rewrite E. f_equal.
    inversion Hw as [|? ? Hx Hw1]; subst. inversion Hw1 as [|? ? Hy _]; subst.
    symmetry. apply be16_de16; assumption.
  - apply de16_range. exact Hw.
Qed.

Lemma AOk_inj a p n a' p' n' : AOk a p n = AOk a' p' n' -> a = a' /\ p = p' /\ n = n'.
Proof. intros H. injection H as H1 H2 H3. auto. Qed.

Lemma fixed_form_ok n s a p k : wf_bytes s ->
  (if lenN s <? n + 2 then AIncomplete else AOk (sub 0 n s) (de16 (sub n 2 s)) (n + 2)) = AOk a p k ->
  wf_bytes a /\ lenN a = n /\ p < 65536 /\ k <= lenN s /\ firstn (N.to_nat k) s = a ++ be16 p.
Proof.
  intros Hwf. destruct (N.ltb_spec (lenN s) (n + 2)) as [|Hl]; [discriminate|].
  intros H. apply AOk_inj in H. destruct H as (Ha & Hp & Hk). subst a p k.
  destruct (fixed_ok n s Hl Hwf) as [F1 F2]. unfold sub. change (N.to_nat 0) with 0%nat. cbn [skipn].
  refine (conj _ (conj _ (conj F2 (conj Hl F1)))); [apply wf_bytes_firstn, Hwf|apply lenN_firstn; lia].
Qed.

Lemma ref_addr_port_ok atyp s a p n : wf_bytes s -> ref_addr_port atyp s = AOk a p n ->
  wf_addr atyp a /\ p < 65536 /\ n <= lenN s /\ firstn (N.to_nat n) s = enc_addr atyp a ++ be16 p.
Proof.
  intros Hwf. unfold ref_addr_port, wf_addr, enc_addr. rewrite addr_form_of_if.
  destruct (N.eqb_spec atyp 1) as [->|H1].
  { intros H. destruct (fixed_form_ok 4 s a p n Hwf H) as (W & L & P & K & F).
    cbn [N.eqb Pos.eqb]. refine (conj (conj W _) (conj P (conj K F))). left. auto. }
  destruct (N.eqb_spec atyp 3) as [->|H3].
  { destruct s as [|l tl]; [discriminate|].
    assert (Hwt : wf_bytes tl) by (inversion Hwf; assumption).
    assert (Hb : l < 256) by (inversion Hwf as [|? ? Hb _]; exact Hb).
    intros H.
    assert (H' : (if lenN tl <? l + 2 then AIncomplete
                  else AOk (sub 0 l tl) (de16 (sub l 2 tl)) (l + 2)) = AOk a p (n - 1) /\ 1 <= n).
    { rewrite lenN_cons in H.
      destruct (N.ltb_spec (1 + lenN tl) (1 + l + 2)) as [|Hl]; [discriminate|].
      destruct (N.ltb_spec (lenN tl) (l + 2)) as [|_]; [lia|].
      apply AOk_inj in H. destruct H as (Ha & Hp & Hk). subst a p n. split; [|lia]. f_equal; try lia.
      all: unfold sub; rewrite ?N2Nat.inj_add; change (N.to_nat 1) with 1%nat;
        change (N.to_nat 0) with 0%nat; reflexivity. }
    destruct H' as [H' Hn1].
    destruct (fixed_form_ok l tl a p (n - 1) Hwt H') as (W & L & P & K & F).
    cbn [N.eqb Pos.eqb]. refine (conj (conj W _) (conj P (conj _ _))).
    - right. left. split; [reflexivity|]. rewrite L. exact Hb.
    - rewrite lenN_cons. lia.
    - replace n with (1 + (n - 1)) by lia. rewrite N2Nat.inj_add. change (N.to_nat 1) with 1%nat.
      cbn [Nat.add firstn]. rewrite F, L. reflexivity. }
  destruct (N.eqb_spec atyp 4) as [->|H4]; [|discriminate].
  intros H. destruct (fixed_form_ok 16 s a p n Hwf H) as (W & L & P & K & F).
  cbn [N.eqb Pos.eqb]. refine (conj (conj W _) (conj P (conj K F))). right. right. auto.
Qed.

(* conversely every RFC-encoded address/port is read back as itself, whatever follows *)
Lemma ref_addr_port_enc atyp a p tail : wf_addr atyp a -> p < 65536 ->
  ref_addr_port atyp (enc_addr atyp a ++ be16 p ++ tail) = AOk a p (lenN (enc_addr atyp a) + 2).
Proof.
  intros (Hwa & Hform) Hp. unfold ref_addr_port, enc_addr. rewrite addr_form_of_if. unfold sub.
  assert (Hport : forall k (x : list byte), lenN x = k ->
            de16 (firstn (N.to_nat 2) (skipn (N.to_nat k) (x ++ be16 p ++ tail))) = p).
  { intros k x Hk. rewrite (dropN_app_exact k x _ Hk).
    rewrite (takeN_app_exact 2 (be16 p) tail eq_refl). apply de16_be16. exact Hp. }
  destruct Hform as [[-> Hl]|[[-> Hl]|[-> Hl]]]; cbn [N.eqb Pos.eqb].
  - rewrite lenN_app, Hl. destruct (N.ltb_spec (4 + lenN (be16 p ++ tail)) (4 + 2)) as [H|_].
    { rewrite lenN_app in H. unfold lenN in H at 1. rewrite be16_length in H. lia. }
    change (N.to_nat 0) with 0%nat. cbn [skipn].
    rewrite (takeN_app_exact 4 a _ Hl), (Hport 4 a Hl). reflexivity.
  - cbn [app]. rewrite lenN_cons, lenN_app.
    destruct (N.ltb_spec (1 + (lenN a + lenN (be16 p ++ tail))) (1 + lenN a + 2)) as [H|_].
    { rewrite lenN_app in H. unfold lenN in H at 2. rewrite be16_length in H. lia. }
    change (N.to_nat 1) with 1%nat. rewrite N2Nat.inj_add. change (N.to_nat 1) with 1%nat.
    cbn [Nat.add skipn]. rewrite (takeN_app_exact (lenN a) a _ eq_refl), (Hport (lenN a) a eq_refl).
    rewrite lenN_cons. reflexivity.
  - rewrite lenN_app, Hl. destruct (N.ltb_spec (16 + lenN (be16 p ++ tail)) (16 + 2)) as [H|_].
    { rewrite lenN_app in H. unfold lenN in H at 1. rewrite be16_length in H. lia. }
    change (N.to_nat 0) with 0%nat. cbn [skipn].
    rewrite (takeN_app_exact 16 a _ Hl), (Hport 16 a Hl). reflexivity.
Qed.

Lemma enc_addr_len atyp a : lenN (enc_addr atyp a) = if atyp =? 3 then 1 + lenN a else lenN a.
Proof. unfold enc_addr. destruct (atyp =? 3); [apply lenN_cons|reflexivity]. Qed.

Lemma RAccept_inj q n q' n' : RAccept q n = RAccept q' n' -> q = q' /\ n = n'.
Proof. intros H. injection H as H1 H2. auto. Qed.

(* the reference accepts exactly the RFC encodings: soundness ... *)
Theorem ref_request_sound cmd_ok s q n : wf_bytes s -> ref_request cmd_ok s = RAccept q n ->
  cmd_ok (q_cmd q) = true /\ wf_addr (q_atyp q) (q_addr q) /\ q_port q < 65536 /\
  exists rsv, firstn (N.to_nat n) s = enc_request q rsv /\ n <= lenN s.
Proof.
  intros Hwf. unfold ref_request.
  destruct s as [|ver [|cmd [|rsv [|atyp tl]]]]; try discriminate.
  destruct (N.eqb_spec ver 5) as [->|]; cbn [negb]; [|discriminate].
  destruct (cmd_ok cmd) eqn:Ec; cbn [negb]; [|discriminate].
  destruct (ref_addr_port atyp tl) as [| |a p k] eqn:Ea; try discriminate.
  intros H. apply RAccept_inj in H. destruct H as [<- <-]. cbn [q_cmd q_atyp q_addr q_port].
  assert (Hwt : wf_bytes tl).
  { do 4 (inversion Hwf as [|? ? _ Hwf']; subst; clear Hwf; rename Hwf' into Hwf). exact Hwf. }
  destruct (ref_addr_port_ok atyp tl a p k Hwt Ea) as (W & P & L & F).
  refine (conj Ec (conj W (conj P _))). exists rsv. split.
  - unfold enc_request. cbn [q_cmd q_atyp q_addr q_port app].
    rewrite N2Nat.inj_add. change (N.to_nat 4) with 4%nat. cbn [Nat.add firstn]. now rewrite F.
  - rewrite !lenN_cons. lia.
Qed.

(* ... and completeness *)
Theorem ref_request_complete cmd_ok q rsv tail :
  cmd_ok (q_cmd q) = true -> wf_addr (q_atyp q) (q_addr q) -> q_port q < 65536 ->
  ref_request cmd_ok (enc_request q rsv ++ tail) = RAccept q (lenN (enc_request q rsv)).
Proof.
  intros Hc Hw Hp. destruct q as [cmd atyp a p]. cbn [q_cmd q_atyp q_addr q_port] in *.
  unfold enc_request, ref_request. cbn [q_cmd q_atyp q_addr q_port app]. cbn [N.eqb Pos.eqb negb].
  rewrite Hc. cbn [negb]. rewrite <- !app_assoc, (ref_addr_port_enc atyp a p tail Hw Hp).
  f_equal. rewrite !lenN_cons, !lenN_app. unfold lenN at 3. rewrite be16_length. lia.
Qed.

Theorem ref_udp_sound d atyp a p data : wf_bytes d -> ref_udp d = Some (atyp, a, p, data) ->
  wf_addr atyp a /\ p < 65536 /\ exists r0 r1, d = enc_udp r0 r1 atyp a p data.
Proof.
  intros Hwf. unfold ref_udp.
  destruct d as [|r0 [|r1 [|frag [|ty tl]]]]; try discriminate.
  destruct (N.eqb_spec frag 0) as [->|]; cbn [negb]; [|discriminate].
  destruct (ref_addr_port ty tl) as [| |a' p' k] eqn:Ea; try discriminate.
  intros H. injection H as <- <- <- <-.
  assert (Hwt : wf_bytes tl).
  { do 4 (inversion Hwf as [|? ? _ Hwf']; subst; clear Hwf; rename Hwf' into Hwf). exact Hwf. }
  destruct (ref_addr_port_ok ty tl a' p' k Hwt Ea) as (W & P & L & F).
  refine (conj W (conj P _)). exists r0, r1. unfold enc_udp. cbn [app]. do 4 f_equal.
  rewrite <- (firstn_skipn (N.to_nat k) tl) at 1. rewrite F, <- app_assoc. reflexivity.
Qed.

Theorem ref_udp_complete r0 r1 atyp a p data : wf_addr atyp a -> p < 65536 ->
  ref_udp (enc_udp r0 r1 atyp a p data) = Some (atyp, a, p, data).
Proof.
  intros Hw Hp. unfold enc_udp, ref_udp. cbn [app N.eqb negb].
  rewrite (ref_addr_port_enc atyp a p data Hw Hp).
  rewrite app_assoc. rewrite dropN_app_exact; [reflexivity|].
  rewrite lenN_app. unfold lenN at 2. rewrite be16_length. lia.
Qed.

(* ---- buildUDPHeader, then parseUDPHeader again ---- *)
Lemma v4mapped_skipn ip : is_v4mapped ip = true -> v4mapped (skipn 12 ip) = ip.
Proof.
  unfold is_v4mapped, v4mapped. intros H. apply bytes_eqb_eq in H. rewrite <- H. apply firstn_skipn.
Qed.

Lemma is_v4mapped_len ip : is_v4mapped ip = true -> lenN ip = 16 -> lenN (skipn 12 ip) = 4.
Proof. intros _ H. change 12%nat with (N.to_nat 12). rewrite lenN_skipn, H. reflexivity. Qed.

Section NetProofs.
  Variable parse_ip : list byte -> option (list byte).
  Variable ip_string : list byte -> list byte.
  (* what is assumed of Go's net package *)
  Hypothesis parse_ip_len : forall t ip, parse_ip t = Some ip -> lenN ip = 16 /\ wf_bytes ip.
  Hypothesis parse_string4 : forall a, lenN a = 4 -> wf_bytes a -> parse_ip (ip_string a) = Some (v4mapped a).
  Hypothesis parse_string16 : forall a, lenN a = 16 -> wf_bytes a -> parse_ip (ip_string a) = Some a.

  (* the (atyp, address) a host text is encoded with *)
  Definition built_addr (host : list byte) : N * list byte :=
    match parse_ip host with
    | Some ip => if is_v4mapped ip then (1, skipn 12 ip) else (4, ip)
    | None => (3, host)
    end.

  Lemma built_addr_wf host : wf_bytes host -> (parse_ip host = None -> lenN host < 256) ->
    wf_addr (fst (built_addr host)) (snd (built_addr host)).
  Proof.
    intros Hwh Hd. unfold built_addr, wf_addr.
    destruct (parse_ip host) as [ip|] eqn:E.
    - destruct (parse_ip_len _ _ E) as [L W]. destruct (is_v4mapped ip) eqn:Em; cbn [fst snd].
      + split; [change 12%nat with (N.to_nat 12); apply wf_bytes_skipn, W|].
        left. split; [reflexivity|]. now apply is_v4mapped_len.
      + split; [exact W|]. right. right. auto.
    - cbn [fst snd]. split; [exact Hwh|]. right. left. auto.
  Qed.

  Lemma udp_build_is_enc host port data : (parse_ip host = None -> lenN host < 256) ->
    udp_build parse_ip host port data = enc_udp 0 0 (fst (built_addr host)) (snd (built_addr host)) port data.
  Proof.
    intros Hd. unfold udp_build, built_addr, enc_udp, enc_addr.
    destruct (parse_ip host) as [ip|] eqn:E.
    - destruct (is_v4mapped ip); reflexivity.
    - cbn [fst snd N.eqb Pos.eqb app]. specialize (Hd eq_refl).
      replace (lenN host mod 256) with (lenN host) by lia. reflexivity.
  Qed.

  (* every destination the relay can hold is encoded to a header that parses back to it *)
  Theorem udp_parse_build host port data :
    wf_bytes host -> (parse_ip host = None -> lenN host < 256) -> port < 65536 ->
    udp_parse udp_min_current (udp_build parse_ip host port data) =
    Some (fst (built_addr host), snd (built_addr host), port, data).
  Proof.
    intros Hwh Hd Hp. rewrite udp_parse_is_ref, (udp_build_is_enc host port data Hd).
    apply ref_udp_complete; [apply built_addr_wf; assumption|exact Hp].
  Qed.

  Lemma dest_of_built host : wf_bytes host ->
    dest_of parse_ip (host_text ip_string (fst (built_addr host)) (snd (built_addr host))) = dest_of parse_ip host.
  Proof.
    intros Hwh. unfold built_addr, dest_of, host_text, ATYP_DOMAIN.
    destruct (parse_ip host) as [ip|] eqn:E.
    - destruct (parse_ip_len _ _ E) as [L W]. destruct (is_v4mapped ip) eqn:Em; cbn [fst snd N.eqb Pos.eqb].
      + rewrite parse_string4.
        * now rewrite (v4mapped_skipn ip Em).
        * now apply is_v4mapped_len.
        * change 12%nat with (N.to_nat 12). apply wf_bytes_skipn, W.
      + now rewrite (parse_string16 ip L W).
    - cbn [fst snd N.eqb Pos.eqb]. now rewrite E.
  Qed.

  (* (3) rebuild / reparse: for every accepted datagram, re-encoding the parsed destination and payload and
     parsing again yields the same destination (IP or name), port and payload *)
  Theorem udp_rebuild_reparse d atyp addr port data :
    wf_bytes d -> udp_parse udp_min_current d = Some (atyp, addr, port, data) ->
    exists atyp' addr',
      udp_parse udp_min_current (udp_build parse_ip (host_text ip_string atyp addr) port data)
        = Some (atyp', addr', port, data) /\
      dest_of parse_ip (host_text ip_string atyp' addr') = dest_of parse_ip (host_text ip_string atyp addr).
  Proof.
    intros Hwf Hparse. rewrite udp_parse_is_ref in Hparse.
    destruct (ref_udp_sound d atyp addr port data Hwf Hparse) as ((Hwa & Hform) & Hp & _).
    set (host := host_text ip_string atyp addr).
    assert (Hd : parse_ip host = None -> lenN host < 256).
    { subst host. unfold host_text, ATYP_DOMAIN.
      destruct Hform as [[-> Hl]|[[-> Hl]|[-> Hl]]]; cbn [N.eqb Pos.eqb]; intros Hn.
      - rewrite (parse_string4 addr Hl Hwa) in Hn. discriminate.
      - exact Hl.
      - rewrite (parse_string16 addr Hl Hwa) in Hn. discriminate. }
    assert (Hwh : wf_bytes host \/ parse_ip host <> None).
    { subst host. unfold host_text, ATYP_DOMAIN.
      destruct Hform as [[-> Hl]|[[-> Hl]|[-> Hl]]]; cbn [N.eqb Pos.eqb].
      - right. rewrite (parse_string4 addr Hl Hwa). discriminate.
      - left. exact Hwa.
      - right. rewrite (parse_string16 addr Hl Hwa). discriminate. }
    exists (fst (built_addr host)), (snd (built_addr host)).
    destruct Hwh as [Hwh|Hne].
    - split; [apply udp_parse_build; assumption|apply dest_of_built; exact Hwh].
    - (* IP text: well-formedness of the text itself is not needed *)
      destruct (parse_ip host) as [ip|] eqn:E; [|congruence].
      destruct (parse_ip_len _ _ E) as [L W].
      assert (Hd' : parse_ip host = None -> lenN host < 256) by (intros Hn; rewrite E in Hn; discriminate).
      split.
      + rewrite udp_parse_is_ref, (udp_build_is_enc host port data Hd').
        apply ref_udp_complete; [|exact Hp].
        unfold built_addr, wf_addr. rewrite E. destruct (is_v4mapped ip) eqn:Em; cbn [fst snd].
        * split; [change 12%nat with (N.to_nat 12); apply wf_bytes_skipn, W|].
          left. split; [reflexivity|]. now apply is_v4mapped_len.
        * split; [exact W|]. right. right. auto.
      + unfold built_addr, dest_of, host_text, ATYP_DOMAIN. rewrite E.
        destruct (is_v4mapped ip) eqn:Em; cbn [fst snd N.eqb Pos.eqb].
        * rewrite parse_string4.
          -- now rewrite (v4mapped_skipn ip Em).
          -- now apply is_v4mapped_len.
          -- change 12%nat with (N.to_nat 12). apply wf_bytes_skipn, W.
        * now rewrite (parse_string16 ip L W).
  Qed.
End NetProofs.

Lemma udp_build_then_parse (parse_ip : list byte -> option (list byte)) (ip_string : list byte -> list byte) :
  (forall t ip, parse_ip t = Some ip -> lenN ip = 16 /\ wf_bytes ip) ->
  (forall a, lenN a = 4 -> wf_bytes a -> parse_ip (ip_string a) = Some (v4mapped a)) ->
  (forall a, lenN a = 16 -> wf_bytes a -> parse_ip (ip_string a) = Some a) ->
  forall host port data,
  wf_bytes host -> (parse_ip host = None -> lenN host < 256) -> port < 65536 ->
  exists atyp' addr',
    udp_parse udp_min_current (udp_build parse_ip host port data) = Some (atyp', addr', port, data) /\
    dest_of parse_ip (host_text ip_string atyp' addr') = dest_of parse_ip host.
Proof.
  intros H1 H2 H3 host port data Hw Hd Hp.
  exists (fst (built_addr parse_ip host)), (snd (built_addr parse_ip host)). split.
  - exact (udp_parse_build parse_ip ip_string H1 H2 H3 host port data Hw Hd Hp).
  - exact (dest_of_built parse_ip ip_string H1 H2 H3 host Hw).
Qed.

(* ------------------------------------------------------------------------------------------ *)
(* headline corollaries at the level of the parsers themselves                                 *)
(* ------------------------------------------------------------------------------------------ *)
(* parseUDPHeader never indexes out of range (no run-time panic), for every datagram *)
Lemma idx_in i d : i < lenN d -> idx i d = Some (byte_at (N.to_nat i) d).
Proof. intros H. unfold idx. destruct (N.ltb_spec i (lenN d)); [reflexivity|lia]. Qed.
Lemma slc_in a b d : a <= b -> b <= lenN d -> slc a b d = Some (sub a (b - a) d).
Proof.
  intros H1 H2. unfold slc. destruct (N.leb_spec a b); [|lia]. destruct (N.leb_spec b (lenN d)); [|lia]. reflexivity.
Qed.
Lemma sub_to_end a d : a <= lenN d -> sub a (lenN d - a) d = skipn (N.to_nat a) d.
Proof.
  intros H. unfold sub. apply firstn_all2. rewrite skipn_length. unfold lenN in *. lia.
Qed.

Theorem udp_parse_checked_spec mn d : 4 <= mn ->
  udp_parse_checked mn d = upres_of (udp_parse mn d).
Proof.
  intros Hmn. unfold udp_parse_checked, udp_parse.
  destruct (N.ltb_spec (lenN d) mn) as [|Hl]; [reflexivity|].
  rewrite (idx_in 2 d) by lia. change (N.to_nat 2) with 2%nat.
  destruct (negb (byte_at 2 d =? 0)); [reflexivity|].
  rewrite (idx_in 3 d) by lia. change (N.to_nat 3) with 3%nat.
  destruct (byte_at 3 d =? ATYP_V4).
  { destruct (N.ltb_spec (lenN d) 10) as [|H10]; [reflexivity|].
    rewrite (slc_in 4 8 d), (slc_in 8 10 d), (slc_in 10 (lenN d) d) by lia.
    rewrite (sub_to_end 10 d) by lia. reflexivity. }
  destruct (byte_at 3 d =? ATYP_DOMAIN).
  { destruct (N.ltb_spec (lenN d) 5) as [|H5]; [reflexivity|].
    rewrite (idx_in 4 d) by lia. change (N.to_nat 4) with 4%nat.
    set (dl := byte_at 4 d).
    destruct (N.ltb_spec (lenN d) (5 + dl + 2)) as [|Hd]; [reflexivity|].
    rewrite (slc_in 5 (5 + dl) d), (slc_in (5 + dl) (5 + dl + 2) d), (slc_in (5 + dl + 2) (lenN d) d) by lia.
    rewrite (sub_to_end (5 + dl + 2) d) by lia.
    replace (5 + dl - 5) with dl by lia. replace (5 + dl + 2 - (5 + dl)) with 2 by lia. reflexivity. }
  destruct (byte_at 3 d =? ATYP_V6).
  { destruct (N.ltb_spec (lenN d) 22) as [|H22]; [reflexivity|].
    rewrite (slc_in 4 20 d), (slc_in 20 22 d), (slc_in 22 (lenN d) d) by lia.
    rewrite (sub_to_end 22 d) by lia. reflexivity. }
  reflexivity.
Qed.

Corollary udp_parse_never_panics d : udp_parse_checked udp_min_current d <> UPanic.
Proof.
  rewrite udp_parse_checked_spec by (unfold udp_min_current; lia).
  destruct (udp_parse udp_min_current d) as [[[[t a] p] pl]|]; discriminate.
Qed.

(* a first length check below 4 would index out of range: the guard is what excludes the panic *)
Lemma udp_parse_short_guard_refuted : exists d, udp_parse_checked 3 d = UPanic.
Proof. exists [0; 0; 0]. reflexivity. Qed.

(* an accepted datagram IS the RFC encoding of what was returned, followed by the payload: nothing lost, nothing added *)
Theorem udp_parse_payload_intact d atyp a p data :
  wf_bytes d -> udp_parse udp_min_current d = Some (atyp, a, p, data) ->
  wf_addr atyp a /\ p < 65536 /\ exists r0 r1, d = enc_udp r0 r1 atyp a p data.
Proof. intros Hwf H. rewrite udp_parse_is_ref in H. exact (ref_udp_sound d atyp a p data Hwf H). Qed.

(* greeting: every RFC method-selection message offering the wanted method is selected *)
Lemma ref_greeting_complete want (methods tail : list byte) :
  0 < lenN methods -> lenN methods < 256 -> existsb (fun m => m =? want) methods = true ->
  ref_greeting want (enc_greeting methods ++ tail) = GSelected (2 + lenN methods).
Proof.
  intros H0 H1 He. unfold enc_greeting, ref_greeting. cbn [app N.eqb Pos.eqb negb].
  destruct (N.eqb_spec (lenN methods) 0) as [E|_]; [lia|].
  rewrite lenN_app. destruct (N.ltb_spec (lenN methods + lenN tail) (lenN methods)) as [|_]; [lia|].
  unfold sub. change (N.to_nat 0) with 0%nat. cbn [skipn].
  rewrite (takeN_app_exact (lenN methods) methods tail eq_refl), He. reflexivity.
Qed.

Lemma enc_greeting_len (methods : list byte) : lenN (enc_greeting methods) = 2 + lenN methods.
Proof. unfold enc_greeting. cbn [app]. rewrite !lenN_cons. lia. Qed.

Lemma expected_session_complete anm rbv cmd_ok (methods : list byte) q rsv (tail : list byte) :
  0 < lenN methods -> lenN methods < 256 -> existsb (fun m => m =? 0) methods = true ->
  cmd_ok (q_cmd q) = true -> wf_addr (q_atyp q) (q_addr q) -> q_port q < 65536 ->
  expected_session anm rbv cmd_ok None (enc_greeting methods ++ enc_request q rsv ++ tail) =
  {| o_res := Some q; o_out := [5; 0]; o_used := lenN (enc_greeting methods) + lenN (enc_request q rsv) |}.
Proof.
  intros H0 H1 He Hc Hw Hp. unfold expected_session, expected_greeting. cbn [adapter_want]. unfold AUTH_NONE.
  rewrite (ref_greeting_complete 0 methods _ H0 H1 He). cbn [g_ok g_used g_out].
  rewrite <- enc_greeting_len, (dropN_app_exact _ (enc_greeting methods) _ eq_refl).
  unfold expected_request. rewrite (ref_request_complete cmd_ok q rsv tail Hc Hw Hp).
  cbn [o_res o_out o_used app]. reflexivity.
Qed.

(* completeness of the parsers themselves: EVERY well-formed RFC 1928 conversation (a greeting offering "no
   authentication", then a supported request) is parsed to exactly that request, under every chunking, and what
   follows the request stays on the connection untouched *)
Theorem listener_accepts_every_rfc_request (methods : list byte) q rsv (tail : list byte) cuts :
  0 < lenN methods -> lenN methods < 256 -> existsb (fun m => m =? 0) methods = true ->
  listener_cmd_ok (q_cmd q) = true -> wf_addr (q_atyp q) (q_addr q) -> q_port q < 65536 ->
  rd_obs (run_rd listener_handshake (mkrd (enc_greeting methods ++ enc_request q rsv ++ tail) cuts) []) =
  Some (Some q, tail, [5; 0]).
Proof.
  intros H0 H1 He Hc Hw Hp. rewrite listener_matches_rfc. unfold expected_listener.
  rewrite (expected_session_complete false true listener_cmd_ok methods q rsv tail H0 H1 He Hc Hw Hp).
  cbn [o_res o_out o_used]. rewrite app_assoc, dropN_app_exact; [reflexivity|apply lenN_app].
Qed.

Theorem adapter_accepts_every_rfc_request (methods : list byte) q rsv (tail : list byte) cuts :
  0 < lenN methods -> lenN methods < 256 -> existsb (fun m => m =? 0) methods = true ->
  adapter_cmd_ok (q_cmd q) = true -> wf_addr (q_atyp q) (q_addr q) -> q_port q < 65536 ->
  adapter_session false None (mkrd (enc_greeting methods ++ enc_request q rsv ++ tail) cuts) =
  Some {| a_hs_ok := true; a_hs_left := enc_request q rsv ++ tail; a_req := Some q; a_out := [5; 0]; a_left := tail |}.
Proof.
  intros H0 H1 He Hc Hw Hp. rewrite adapter_matches_rfc. unfold adapter_expected_obs, expected_adapter.
  rewrite (expected_session_complete true false adapter_cmd_ok methods q rsv tail H0 H1 He Hc Hw Hp).
  unfold expected_greeting. cbn [adapter_want]. unfold AUTH_NONE.
  rewrite (ref_greeting_complete 0 methods _ H0 H1 He). cbn [g_ok g_used g_out o_res o_out o_used].
  rewrite <- enc_greeting_len, (dropN_app_exact _ (enc_greeting methods) _ eq_refl).
  rewrite app_assoc, dropN_app_exact; [reflexivity|apply lenN_app].
Qed.

(* soundness of the parsers themselves: whatever Listener.Handshake accepts is, byte for byte, the RFC encoding of
   the request it returns *)
Theorem listener_accepts_only_rfc_encodings s cuts q r' out :
  wf_bytes s -> run_rd listener_handshake (mkrd s cuts) [] = Some (Some q, r', out) ->
  listener_cmd_ok (q_cmd q) = true /\ wf_addr (q_atyp q) (q_addr q) /\ q_port q < 65536 /\
  exists glen rlen rsv,
    firstn (N.to_nat rlen) (skipn (N.to_nat glen) s) = enc_request q rsv /\
    rest r' = skipn (N.to_nat (glen + rlen)) s.
Proof.
  intros Hwf H. destruct (listener_no_overread s cuts q r' out H) as (glen & rlen & _ & Hr & Hrest & _).
  destruct (ref_request_sound listener_cmd_ok _ q rlen (wf_bytes_skipn _ _ Hwf) Hr) as (C & W & P & rsv & F & _).
  refine (conj C (conj W (conj P _))). exists glen, rlen, rsv. auto.
Qed.

(* "rejected with the appropriate reply", spelled out: the replies RFC 1928 section 6 mandates *)
Theorem listener_rejects_with_mandated_reply s cuts :
  (forall n, ref_greeting AUTH_NONE s = GNoAcceptable n ->
     rd_obs (run_rd listener_handshake (mkrd s cuts) []) = Some (None, skipn (N.to_nat n) s, [5; 255])) /\
  (forall n, ref_greeting AUTH_NONE s = GSelected n ->
     (ref_request listener_cmd_ok (skipn (N.to_nat n) s) = RCmdUnsupported ->
        rd_obs (run_rd listener_handshake (mkrd s cuts) []) =
        Some (None, skipn (N.to_nat (n + 4)) s, [5; 0] ++ reply REP_CMD)) /\
     (ref_request listener_cmd_ok (skipn (N.to_nat n) s) = RAtypUnsupported ->
        rd_obs (run_rd listener_handshake (mkrd s cuts) []) =
        Some (None, skipn (N.to_nat (n + 4)) s, [5; 0] ++ reply REP_ATYP))).
Proof.
  unfold AUTH_NONE. split; [|intros n Hg; split]; intros; rewrite listener_matches_rfc;
    unfold expected_listener, expected_session, expected_greeting, expected_request; cbn [adapter_want];
    unfold AUTH_NONE.
  - rewrite H. reflexivity.
  - rewrite Hg. cbn [g_ok g_used g_out]. rewrite H. reflexivity.
  - rewrite Hg. cbn [g_ok g_used g_out]. rewrite H. reflexivity.
Qed.

Theorem adapter_rejects_with_mandated_reply auth s cuts :
  (forall n, ref_greeting (adapter_want auth) s = GNoAcceptable n ->
     exists o, adapter_session false auth (mkrd s cuts) = Some o /\
               a_hs_ok o = false /\ a_req o = None /\ a_out o = [5; 255] /\ a_left o = skipn (N.to_nat n) s) /\
  (g_ok (expected_greeting true auth s) = true ->
     let g := expected_greeting true auth s in
     (ref_request adapter_cmd_ok (skipn (N.to_nat (g_used g)) s) = RCmdUnsupported ->
        exists o, adapter_session false auth (mkrd s cuts) = Some o /\ a_req o = None /\
                  a_out o = g_out g ++ reply REP_CMD /\ a_left o = skipn (N.to_nat (g_used g + 4)) s) /\
     (ref_request adapter_cmd_ok (skipn (N.to_nat (g_used g)) s) = RAtypUnsupported ->
        exists o, adapter_session false auth (mkrd s cuts) = Some o /\ a_req o = None /\
                  a_out o = g_out g ++ reply REP_ATYP /\ a_left o = skipn (N.to_nat (g_used g + 4)) s)).
Proof.
  split.
  - intros n Hg. exists (adapter_expected_obs auth s). split; [apply adapter_matches_rfc|].
    unfold adapter_expected_obs, expected_adapter, expected_session, expected_greeting. rewrite Hg.
    cbn [g_ok g_used g_out a_hs_ok a_req a_out a_left o_res o_out o_used]. auto.
  - intros Hok g. subst g. split; intros Hr; exists (adapter_expected_obs auth s); (split; [apply adapter_matches_rfc|]);
      unfold adapter_expected_obs, expected_adapter, expected_session; rewrite Hok;
      unfold expected_request; rewrite Hr; cbn [a_req a_out a_left o_res o_out o_used]; auto.
Qed.

Lemma readfull_delivers_exactly_n fuel n r got r' :
  (length (rest r) <= fuel)%nat -> read_full fuel n r = RFOk got r' -> lenN got = n.
Proof.
  intros Hf H. destruct (read_full_spec fuel n r Hf) as [Hok Hend].
  destruct (N.le_gt_cases n (lenN (rest r))) as [Hle|Hgt].
  - destruct (Hok Hle) as (r1 & E & _). rewrite E in H. injection H as <- _. now apply lenN_firstn.
  - destruct (Hend Hgt) as (r1 & E & _). rewrite E in H. discriminate.
Qed.

Lemma never_panics_model :
  (forall d, udp_parse_checked udp_min_current d <> UPanic) /\
  (forall (A : Type) (p : prog A) (r : rd) (out : list byte), run_rd p r out <> None) /\
  (forall fuel n r got r', (length (rest r) <= fuel)%nat -> read_full fuel n r = RFOk got r' -> lenN got = n).
Proof. split; [exact udp_parse_never_panics|split; [exact run_rd_total|exact readfull_delivers_exactly_n]]. Qed.

Lemma rfc_request_premises_satisfiable :
  let methods := [2; 0] in
  let q := {| q_cmd := 1; q_atyp := 3; q_addr := [97; 46; 98]; q_port := 443 |} in
  0 < lenN methods /\ lenN methods < 256 /\ existsb (fun m => m =? 0) methods = true /\
  listener_cmd_ok (q_cmd q) = true /\ adapter_cmd_ok (q_cmd q) = true /\ wf_addr (q_atyp q) (q_addr q) /\
  q_port q < 65536 /\
  enc_greeting methods ++ enc_request q 0 ++ [9; 9] = [5;2;2;0; 5;1;0;3;3;97;46;98;1;187; 9;9].
Proof.
  cbv zeta. refine (conj _ (conj _ (conj _ (conj _ (conj _ (conj _ (conj _ _))))))); try (vm_compute; reflexivity).
  split; [apply wf_bytesb_ok; reflexivity|]. right. left. split; [reflexivity|vm_compute; reflexivity].
Qed.

(* ------------------------------------------------------------------------------------------ *)
(* the two defects of the pinned tree, as refuted statements about the faithful pinned model    *)
(* ------------------------------------------------------------------------------------------ *)
(* (a) parseUDPHeader checked len(data) < 10 before looking at ATYP: a valid 9-byte domain datagram
       (RSV RSV FRAG=0 ATYP=3 LEN=1 'a' PORT=80 'x') is dropped *)
Lemma pinned_udp_short_refuted :
  exists d, ref_udp d <> None /\ udp_parse udp_min_pinned d = None.
Proof. exists [0;0;0;3;1;97;0;80;120]. split; vm_compute; [discriminate|reflexivity]. Qed.

(* (b) the adapter greeting used io.ReadAtLeast(conn, buf[257], 2): when greeting and request arrive in one
       segment the request bytes are consumed and dropped, so the outcome depends on the chunking *)
Lemma pinned_adapter_overread_refuted :
  exists s c1 c2, adapter_session true None (mkrd s c1) <> adapter_session true None (mkrd s c2)
                  /\ adapter_session true None (mkrd s c1) <> Some (adapter_expected_obs None s).
Proof.
  exists [5;1;0; 5;1;0;1;10;0;0;1;0;80], [], [3%nat].
  split; vm_compute; intros H; discriminate H.
Qed.

(* results are values: what a history yields for its first operations is what those operations yield on their
   own — later operations (by any session, in any number) leave earlier results unchanged *)
Lemma run_uops_later_ops_irrelevant parse_ip (a b : list uop) :
  firstn (length a) (run_uops parse_ip (a ++ b)) = run_uops parse_ip a.
Proof.
  unfold run_uops. rewrite map_app. rewrite <- (map_length (run_uop parse_ip) a).
  rewrite firstn_app, Nat.sub_diag, firstn_all. cbn [firstn]. apply app_nil_r.
Qed.

Lemma run_uops_nth parse_ip (l : list uop) i o :
  nth_error l i = Some o -> nth_error (run_uops parse_ip l) i = Some (run_uop parse_ip o).
Proof. intros H. unfold run_uops. now apply map_nth_error. Qed.

(* non-vacuity of the assumptions made of Go's net package: a toy text format satisfies them *)
Definition toy_ip_string (a : list byte) : list byte :=
  if lenN a =? 4 then 4 :: a else if is_v4mapped a then 4 :: skipn 12 a else 6 :: a.
Definition toy_parse_ip (t : list byte) : option (list byte) :=
  match t with
  | 4 :: a => if (lenN a =? 4) && wf_bytesb a then Some (v4mapped a) else None
  | 6 :: a => if (lenN a =? 16) && wf_bytesb a then Some a else None
  | _ => None
  end.

Lemma v4mapped_wf a : wf_bytes a -> wf_bytes (v4mapped a).
Proof.
  intros H. unfold v4mapped. apply wf_bytes_app. split; [|exact H].
  apply wf_bytesb_ok. reflexivity.
Qed.

Lemma toy_net_ok :
  (forall t ip, toy_parse_ip t = Some ip -> lenN ip = 16 /\ wf_bytes ip) /\
  (forall a, lenN a = 4 -> wf_bytes a -> toy_parse_ip (toy_ip_string a) = Some (v4mapped a)) /\
  (forall a, lenN a = 16 -> wf_bytes a -> toy_parse_ip (toy_ip_string a) = Some a).
Proof.
  split; [|split].
  - intros t ip. unfold toy_parse_ip. destruct t as [|tag a]; [discriminate|].
    destruct tag as [|p]; [discriminate|].
    destruct p as [[p|p|]|[[p|p|]|[p|p|]|]|]; try discriminate.
    + destruct ((lenN a =? 16) && wf_bytesb a) eqn:E; [|discriminate]. intros H. injection H as <-.
      apply andb_prop in E. destruct E as [E1 E2]. apply N.eqb_eq in E1. apply wf_bytesb_ok in E2. auto.
    + destruct ((lenN a =? 4) && wf_bytesb a) eqn:E; [|discriminate]. intros H. injection H as <-.
      apply andb_prop in E. destruct E as [E1 E2]. apply N.eqb_eq in E1. apply wf_bytesb_ok in E2.
      split; [|apply v4mapped_wf, E2]. unfold v4mapped. rewrite lenN_app, E1. reflexivity.
  - intros a Hl Hw. unfold toy_ip_string. rewrite Hl. cbn [N.eqb Pos.eqb toy_parse_ip].
    rewrite Hl. cbn [N.eqb Pos.eqb andb]. apply wf_bytesb_ok in Hw. now rewrite Hw.
  - intros a Hl Hw. unfold toy_ip_string. rewrite Hl. cbn [N.eqb Pos.eqb].
    destruct (is_v4mapped a) eqn:Em; cbn [toy_parse_ip].
    + rewrite (is_v4mapped_len a Em Hl). cbn [N.eqb Pos.eqb andb].
      assert (Hw' : wf_bytesb (skipn 12 a) = true).
      { apply wf_bytesb_ok. change 12%nat with (N.to_nat 12). apply wf_bytes_skipn, Hw. }
      rewrite Hw'. now rewrite (v4mapped_skipn a Em).
    + rewrite Hl. cbn [N.eqb Pos.eqb andb]. apply wf_bytesb_ok in Hw. now rewrite Hw.
Qed.

(* a concrete non-trivial instance of every hypothesis used above *)
Lemma premises_satisfiable :
  (* a greeting + CONNECT example.com:443 + payload, accepted by the reference *)
  ref_greeting 0 [5;2;2;0] = GSelected 4 /\
  ref_request listener_cmd_ok [5;1;0;3;3;97;46;98;1;187;9;9] =
    RAccept {| q_cmd := 1; q_atyp := 3; q_addr := [97;46;98]; q_port := 443 |} 10 /\
  (* a datagram accepted by parseUDPHeader *)
  udp_parse udp_min_current [0;0;0;1;8;8;8;8;0;53;1;2;3] = Some (1, [8;8;8;8], 53, [1;2;3]) /\
  wf_bytes [0;0;0;1;8;8;8;8;0;53;1;2;3].
Proof. repeat split; try (vm_compute; reflexivity). apply wf_bytesb_ok. reflexivity. Qed.
Close Scope N_scope.

(* Proofs/ShutdownMore.v — C16: queued stream operations (D2), composite clean-up bodies (G), attach after close (H) *)
From TX Require Import Model.Shutdown Proofs.Shutdown Proofs.ShutdownLife.
From Coq Require Import Lia.

(* ================================================================================================ *)
(* D2. lock first, then the closed test                                                              *)
(* ================================================================================================ *)
Section QueueProof.
  Variable reads : nat.

  Definition q_ok (t : qpc) : Prop := match t with QWait => False | QIO true _ => False | _ => True end.

  Lemma qstep_ok t sh : q_ok t -> q_ok (fst (qstep true reads t sh)) /\ q_late (snd (qstep true reads t sh)) = q_late sh.
  Proof.
    destruct sh as [c d r l]. destruct t as [| | |lt k|ok| | |]; cbn; intros H; try contradiction.
    - destruct r; cbn; auto.
    - destruct d; cbn; auto. destruct c; cbn; auto.
    - destruct lt; [contradiction|]. destruct k; cbn; auto.
    - auto.
    - destruct d; cbn; auto. destruct c; cbn; auto.
    - auto.
    - auto.
  Qed.

  Definition LInv (s : qsh * list qpc) : Prop := q_late (fst s) = 0 /\ Forall q_ok (snd s).

  Lemma linv_step s i : LInv s -> LInv (sys_step _ _ (qstep true reads) s i).
  Proof.
    destruct s as [sh ls]. unfold LInv, sys_step. cbn [fst snd]. intros [Hl Hf].
    destruct (nth_error ls i) as [x|] eqn:En; [|cbn [fst snd]; auto].
    destruct (qstep_ok x sh (Forall_nth _ ls i x Hf En)) as [Hx Hl'].
    destruct (qstep true reads x sh) as [x' sh']. cbn [fst snd] in *. split; [lia|]. apply Forall_upd; assumption.
  Qed.

  (* ANY number of operations and Close calls, ANY schedule: no call is ever made on the underlying reader / writer by an
     operation that entered its I/O phase after Close had returned *)
  Theorem no_late_io_all_schedules ts sched :
    Forall q_ok ts -> q_late (fst (run _ _ (qstep true reads) (qinit, ts) sched)) = 0.
  Proof.
    intros Hf. assert (HI : LInv (run _ _ (qstep true reads) (qinit, ts) sched)).
    { apply inv_all_schedules; [intros s0 i; apply linv_step|]. split; [reflexivity|exact Hf]. }
    exact (proj1 HI).
  Qed.

  (* an operation that has not entered its I/O phase (it is queued on the lock behind an in-flight operation, or holds the
     lock and has not tested yet) at a moment when the processor is closed never performs I/O: it waits or returns an error *)
  Definition WInv (j : nat) (s : qsh * list qpc) : Prop :=
    q_closed (fst s) = true /\
    (nth_error (snd s) j = Some QStart \/ nth_error (snd s) j = Some QHave \/ nth_error (snd s) j = Some (QRet false)).

  Lemma q_closed_monotone lf t sh : q_closed sh = true -> q_closed (snd (qstep lf reads t sh)) = true.
  Proof.
    destruct sh as [c d r l]. cbn [q_closed]. intros ->.
    destruct lf, d, r; destruct t as [| | |lt k|ok| | |]; try destruct k; cbn; auto.
  Qed.

  Lemma winv_step j s i : WInv j s -> WInv j (sys_step _ _ (qstep true reads) s i).
  Proof.
    destruct s as [sh ls]. unfold WInv, sys_step. cbn [fst snd]. intros [Hc Hj].
    destruct (nth_error ls i) as [x|] eqn:En; [|cbn [fst snd]; auto].
    pose proof (q_closed_monotone true x sh Hc) as Hmono.
    destruct (qstep true reads x sh) as [x' sh'] eqn:Es. cbn [fst snd] in *. split; [exact Hmono|].
    destruct (Nat.eq_dec i j) as [->|Hne].
    - assert (Hlen : j < length ls) by (apply nth_error_Some; congruence).
      rewrite nth_error_upd_nth_same by exact Hlen. rewrite En in Hj.
      destruct Hj as [Hj|[Hj|Hj]]; inversion Hj; subst x; cbn [qstep] in Es.
      + destruct (q_rlock sh); inversion Es; auto.
      + destruct (q_dlock sh); [inversion Es; auto|]. rewrite Hc in Es. inversion Es; auto.
      + inversion Es; auto.
    - rewrite nth_error_upd_nth_other by exact Hne. exact Hj.
  Qed.

  Theorem queued_op_fails_cleanly j sh ls sched :
    q_closed sh = true -> (nth_error ls j = Some QStart \/ nth_error ls j = Some QHave) ->
    let s := run _ _ (qstep true reads) (sh, ls) sched in
    nth_error (snd s) j = Some QStart \/ nth_error (snd s) j = Some QHave \/ nth_error (snd s) j = Some (QRet false).
  Proof.
    intros Hc Hj s. assert (HI : WInv j s).
    { unfold s. apply inv_all_schedules; [intros s0 i; apply winv_step|]. split; [exact Hc|]. destruct Hj; auto. }
    exact (proj2 HI).
  Qed.
End QueueProof.

(* closed test before the lock: A holds the lock in its I/O call, B passes the test and queues on the lock, Close runs and
   returns, A finishes, B takes the lock and performs its call on the underlying reader of the closed processor, returns ok *)
Lemma check_before_lock_refuted :
  exists sched,
    let s := run _ _ (qstep false 1) (qinit, [QStart; QStart; QClose]) sched in
    q_closed (fst s) = true /\ q_dlock (fst s) = false /\ nth_error (snd s) 1 = Some (QRet true) /\ q_late (fst s) = 1.
Proof. exists [0; 0; 1; 1; 2; 2; 0; 0; 1; 1; 1]. vm_compute. repeat split; reflexivity. Qed.

(* ================================================================================================ *)
(* G. composite clean-up bodies                                                                      *)
(* ================================================================================================ *)
Lemma run_body_all subs :
  fst (run_body false subs) = map s_id subs /\ snd (run_body false subs) = map s_id (filter s_fail subs).
Proof.
  induction subs as [|s r [IH1 IH2]]; cbn; [auto|].
  destruct (run_body false r) as [ran errs]. cbn in *. subst. destruct (s_fail s); cbn; auto.
Qed.

(* every sub-component body of every registered clean handler runs exactly once, in order, whatever fails, however many
   callers close concurrently: composition of handlers_once (Dispose) with run_body_all *)
Theorem composite_bodies_once (bodies : nat -> list sub) hs0 ts sched :
  forallb d_initial ts = true ->
  let s := drun hs0 ts sched in
  forall r a, In (DDone r a) (snd s) ->
    exists sn, d_snap (fst s) = Some sn /\ (exists mid, sn = hs0 ++ mid) /\
      sub_runlog false bodies (d_runlog (fst s)) = flat_map (fun h => map s_id (bodies (h_id h))) sn.
Proof.
  intros Hi s r a Hin.
  destruct (handlers_once_all_schedules hs0 ts sched Hi) as [_ H]. fold s in H.
  destruct (H r a Hin) as (_ & sn & Hs & Hm & _ & Hr & _).
  exists sn. split; [exact Hs|]. split; [exact Hm|].
  unfold sub_runlog. rewrite Hr. unfold ids, ix.
  assert (Hg : forall (l : list hnd) k, flat_map (fun h => fst (run_body false (bodies h)))
                 (map (fun p : nat * hnd => h_id (snd p)) (combine (seq k (length l)) l))
               = flat_map (fun h => map s_id (bodies (h_id h))) l).
  { induction l as [|h t IH]; intros k; cbn; [reflexivity|]. rewrite IH. rewrite (proj1 (run_body_all (bodies (h_id h)))). reflexivity. }
  apply Hg.
Qed.

(* early return: the mapping handler's clean-up with the adapter closed first and failing never reaches the tunnel manager *)
Lemma early_return_refuted :
  exists subs, In 2 (map s_id subs) /\ ~ In 2 (fst (run_body true subs)).
Proof.
  exists [ {| s_id := 0; s_fail := false |}; {| s_id := 1; s_fail := true |}; {| s_id := 2; s_fail := false |} ].
  cbn. split; [auto|]. intros [H|[H|[]]]; discriminate.
Qed.

(* ================================================================================================ *)
(* H. attach after close: the re-sweeping Close                                                      *)
(* ================================================================================================ *)
Lemma cnt_app c a b : cnt c (a ++ b) = cnt c a + cnt c b.
Proof. unfold cnt. apply count_occ_app. Qed.

Definition BInv (s : bsh * list bpc) : Prop :=
  let sh := fst s in let ls := snd s in
  (forall c, cnt c (b_attached sh) = cnt c (slot_list (b_slot sh)) + cnt c (b_closedlog sh) + cnt c (b_dropped sh)) /\
  (forall c, cnt c (b_attached sh) + cnt c (flat_map b_pending ls) <= 1).

Lemma cnt_single c x : cnt c [x] = if Nat.eq_dec x c then 1 else 0.
Proof. unfold cnt. cbn. destruct (Nat.eq_dec x c); reflexivity. Qed.
Lemma cnt_nil c : cnt c [] = 0.
Proof. reflexivity. Qed.
Ltac cnt_simpl := cbn [slot_list] in *; rewrite ?cnt_app, ?cnt_single, ?cnt_nil in *.

Lemma binv_step fp s i : BInv s -> BInv (sys_step _ _ (bstep fp) s i).
Proof.
  destruct s as [sh ls]. unfold BInv, sys_step. cbn [fst snd]. intros [H1 H2].
  destruct (nth_error ls i) as [x|] eqn:En; [|cbn [fst snd]; auto].
  destruct (fm_upd2 b_pending ls i x En) as (a & b & Ha & Hupd).
  destruct sh as [la sl cl att dr]. cbn [b_latch b_slot b_closedlog b_attached b_dropped] in *.
  destruct x as [| | | |c0|]; cbn [bstep b_latch b_slot b_closedlog b_attached b_dropped].
  - (* BClose *)
    destruct (fp && la); cbn [fst snd b_latch b_slot b_closedlog b_attached b_dropped];
      (split; [exact H1|]); intros c; rewrite Hupd; cbn [b_pending]; specialize (H2 c); rewrite Ha in H2; cbn [b_pending] in H2; exact H2.
  - (* BSweep *)
    destruct sl as [o|]; cbn [fst snd b_latch b_slot b_closedlog b_attached b_dropped].
    + split.
      * intros c. specialize (H1 c). cnt_simpl. destruct (Nat.eq_dec o c); lia.
      * intros c; rewrite Hupd; cbn [b_pending]; specialize (H2 c); rewrite Ha in H2; cbn [b_pending] in H2; exact H2.
    + split; [exact H1|]. intros c; rewrite Hupd; cbn [b_pending]; specialize (H2 c); rewrite Ha in H2; cbn [b_pending] in H2; exact H2.
  - (* BLatch *)
    cbn [fst snd b_latch b_slot b_closedlog b_attached b_dropped]. split; [exact H1|].
    intros c; rewrite Hupd; cbn [b_pending]; specialize (H2 c); rewrite Ha in H2; cbn [b_pending] in H2; exact H2.
  - (* BDone *) cbn [fst snd]. rewrite (upd_nth_same ls i _ En). auto.
  - (* BAttach *)
    cbn [fst snd b_latch b_slot b_closedlog b_attached b_dropped]. split.
    + intros c. specialize (H1 c). destruct sl as [o|]; cnt_simpl.
      * destruct (Nat.eq_dec c0 c); destruct (Nat.eq_dec o c); lia.
      * destruct (Nat.eq_dec c0 c); lia.
    + intros c. specialize (H2 c). rewrite Ha in H2. rewrite Hupd. cbn [b_pending] in *. cnt_simpl.
      destruct (Nat.eq_dec c0 c); lia.
  - (* BAttached *) cbn [fst snd]. rewrite (upd_nth_same ls i _ En). auto.
Qed.

Lemma binv_init ts : NoDup (flat_map b_pending ts) -> BInv (binit, ts).
Proof.
  intros Hnd. split; cbn [fst snd binit b_attached b_slot b_closedlog b_dropped slot_list].
  - intros c. reflexivity.
  - intros c. rewrite cnt_nil. unfold cnt. rewrite (NoDup_count_occ Nat.eq_dec) in Hnd. specialize (Hnd c). lia.
Qed.

(* ANY number of Close calls and attach calls (distinct connections), ANY schedule: a connection is never closed twice; and
   whenever a Close then runs its sweep (the lifecycle's final Close, thread k, with nobody else moving), the slot is empty
   afterwards and every connection ever attached that was not displaced by a later attach has been closed exactly once *)
Theorem attach_after_close_all_schedules ts sched k :
  NoDup (flat_map b_pending ts) ->
  let s := run _ _ (bstep false) (binit, ts) sched in
  (forall c, cnt c (b_closedlog (fst s)) <= 1) /\
  (nth_error (snd s) k = Some BClose ->
     let s' := run _ _ (bstep false) s [k; k] in
     b_slot (fst s') = None /\
     forall c, cnt c (b_closedlog (fst s')) + cnt c (b_dropped (fst s')) = cnt c (b_attached (fst s')) /\ cnt c (b_attached (fst s')) <= 1).
Proof.
  intros Hnd s.
  assert (HI : BInv s).
  { unfold s. apply inv_all_schedules; [intros s0 i; apply binv_step|apply binv_init; exact Hnd]. }
  split.
  - intros c. destruct HI as [H1 H2]. specialize (H1 c). specialize (H2 c). lia.
  - intros Hk s'.
    assert (HI' : BInv s') by (unfold s'; apply inv_all_schedules; [intros s0 i; apply binv_step|exact HI]).
    assert (Hslot : b_slot (fst s') = None).
    { unfold s'. destruct s as [sh ls]. cbn [run fold_left]. unfold sys_step at 2. cbn [fst snd] in *. rewrite Hk. cbn [bstep andb fst snd].
      unfold sys_step. cbn [fst snd]. rewrite nth_error_upd_nth_same by (apply nth_error_Some; congruence).
      cbn [bstep]. destruct (b_slot sh) eqn:E; cbn [fst snd b_slot]; [reflexivity|exact E]. }
    split; [exact Hslot|]. intros c. destruct HI' as [H1 H2]. specialize (H1 c). specialize (H2 c).
    rewrite Hslot in H1. cnt_simpl. lia.
Qed.

(* the "already closed" fast path: Close; a late connection is attached; the lifecycle's final Close returns at once:
   connection 7 is never closed *)
Lemma close_fast_path_refuted :
  exists sched,
    let s := run _ _ (bstep true) (binit, [BClose; BAttach 7; BClose]) sched in
    snd s = [BDone; BAttached; BDone] /\ b_slot (fst s) = Some 7 /\ cnt 7 (b_closedlog (fst s)) = 0 /\ cnt 7 (b_attached (fst s)) = 1.
Proof. exists [0; 0; 0; 1; 2; 2; 2]. vm_compute. repeat split; reflexivity. Qed.

(* ================================================================================================ *)
(* I. closers of one session connection: remove under the lock first, then release                   *)
(* ================================================================================================ *)
Definition iown (t : ipc) : list unit := match t with IRelease true => [tt] | _ => [] end.
Definition ith_ok (sh : ish) (t : ipc) : Prop :=
  match t with IRelease _ | IDone => i_present sh = false | IRemove => False | _ => True end.
Definition IInv (s : ish * list ipc) : Prop :=
  let sh := fst s in let ls := snd s in
  Forall (ith_ok sh) ls /\
  i_released sh + (if i_present sh then 1 else 0) + length (flat_map iown ls) = 1.

Lemma ith_ok_mono sh sh' t : (i_present sh = false -> i_present sh' = false) -> ith_ok sh t -> ith_ok sh' t.
Proof. unfold ith_ok. destruct t; auto. Qed.

Lemma iinv_step s i : IInv s -> IInv (sys_step _ _ (istep true) s i).
Proof.
  destruct s as [sh ls]. unfold IInv, sys_step. cbn [fst snd]. intros [Hok Hc].
  destruct (nth_error ls i) as [x|] eqn:En; [|cbn [fst snd]; auto].
  assert (Hx : ith_ok sh x) by (eapply Forall_nth; eauto).
  destruct (fm_upd2 iown ls i x En) as (a & b & Ha & Hupd).
  rewrite Ha in Hc. rewrite !app_length in Hc.
  destruct sh as [pr rl]. cbn [i_present i_released] in *.
  destruct x as [|own| | |]; cbn [istep fst snd i_present i_released].
  - (* ILookup: look up and delete *)
    split.
    + apply Forall_upd; [|reflexivity]. eapply Forall_impl; [|exact Hok]. intros t. apply ith_ok_mono. auto.
    + rewrite Hupd, !app_length. cbn [iown length] in *. destruct pr; cbn [iown length]; lia.
  - (* IRelease *)
    cbn in Hx. subst pr. destruct own; cbn [fst snd i_present i_released].
    + split.
      * apply Forall_upd; [|reflexivity]. eapply Forall_impl; [|exact Hok]. intros t. apply ith_ok_mono. auto.
      * rewrite Hupd, !app_length. cbn [iown length i_present i_released] in *. lia.
    + split.
      * apply Forall_upd; [exact Hok|reflexivity].
      * rewrite Hupd, !app_length. cbn [iown length i_present i_released] in *. lia.
  - destruct Hx.
  - rewrite (upd_nth_same ls i _ En). split; [exact Hok|]. rewrite Ha, !app_length. exact Hc.
  - (* IMgrClose *)
    split.
    + apply Forall_upd; [|destruct pr; reflexivity].
      destruct pr; [|exact Hok]. eapply Forall_impl; [|exact Hok]. intros t. apply ith_ok_mono. auto.
    + rewrite Hupd, !app_length. cbn [iown length] in *. destruct pr; cbn [i_present i_released]; lia.
Qed.

(* ANY number of CloseConnection calls for the connection and SessionManager.Close calls, ANY schedule: the release body
   never runs twice; once every closer has returned (and there was one) it ran exactly once and the entry is gone *)
Theorem connection_released_once ts sched :
  forallb i_initial ts = true ->
  let s := run _ _ (istep true) (iinit, ts) sched in
  i_released (fst s) <= 1 /\
  (forallb i_done (snd s) = true -> snd s <> [] -> i_released (fst s) = 1 /\ i_present (fst s) = false).
Proof.
  intros Hi s.
  assert (HI : IInv s).
  { unfold s. apply inv_all_schedules; [intros s0 i; apply iinv_step|].
    rewrite forallb_forall in Hi. split; cbn [fst snd iinit i_present i_released].
    - rewrite Forall_forall. intros t Ht. apply Hi in Ht. destruct t; cbn in Ht; try discriminate; exact I.
    - assert (E : flat_map iown ts = []).
      { induction ts as [|t r IH]; cbn; [reflexivity|].
        assert (Ht : i_initial t = true) by (apply Hi; left; reflexivity).
        destruct t; cbn in Ht; try discriminate; cbn; apply IH; intros y Hy; apply Hi; right; exact Hy. }
      rewrite E. reflexivity. }
  destruct s as [sh ls]. destruct HI as [Hok Hc]. cbn [fst snd] in *. split; [destruct (i_present sh); lia|].
  intros Hd Hne. rewrite forallb_forall in Hd.
  assert (Hp : i_present sh = false).
  { destruct ls as [|t r]; [congruence|]. rewrite Forall_forall in Hok.
    specialize (Hok t (or_introl eq_refl)). specialize (Hd t (or_introl eq_refl)). destruct t; cbn in Hd; try discriminate. exact Hok. }
  assert (Ho : flat_map iown ls = []).
  { destruct (flat_map iown ls) eqn:E; [reflexivity|]. exfalso.
    assert (Hn : flat_map iown ls <> []) by (rewrite E; discriminate).
    apply fm_nonempty in Hn. destruct Hn as (x & Hx & Hf). specialize (Hd x Hx). destruct x; cbn in Hd, Hf; try discriminate; congruence. }
  rewrite Ho, Hp in Hc. cbn in Hc. split; [lia|exact Hp].
Qed.

(* release first, delete afterwards: two overlapping CloseConnection calls both find the entry and both release it *)
Lemma release_before_remove_refuted :
  exists sched, i_released (fst (run _ _ (istep false) (iinit, [ILookup; ILookup]) sched)) = 2.
Proof. exists [0; 1; 0; 1; 0; 1]. vm_compute. reflexivity. Qed.
Lemma release_before_remove_mgr_refuted :
  exists sched, i_released (fst (run _ _ (istep false) (iinit, [ILookup; IMgrClose]) sched)) = 2.
Proof. exists [0; 1; 0; 0]. vm_compute. reflexivity. Qed.

(* ================================================================================================ *)
(* J. ResourceManager                                                                                *)
(* ================================================================================================ *)
Lemma fold_left_inv {A B} (f : A -> B -> A) (P : A -> Prop) :
  (forall a b, P a -> P (f a b)) -> forall l a, P a -> P (fold_left f l a).
Proof. intros H l. induction l as [|b r IH]; cbn; intros a Ha; [exact Ha|]. apply IH, H, Ha. Qed.

Lemma rm_has_in id l : rm_has id l = false -> ~ In id (map fst l).
Proof.
  unfold rm_has. induction l as [|p r IH]; cbn; [auto|]. intros H [E|Hin].
  - rewrite E, Nat.eqb_refl in H. discriminate.
  - apply orb_false_iff in H. destruct H as [_ H]. exact (IH H Hin).
Qed.

Lemma nodup_filter_fst (l : list (nat * bool)) f : NoDup (map fst l) -> NoDup (map fst (filter f l)).
Proof.
  induction l as [|p r IH]; cbn; intros H; [constructor|]. inversion H as [|x xs Hn Hr]; subst.
  destruct (f p); cbn; [|apply IH; exact Hr]. constructor; [|apply IH; exact Hr].
  intros Hin. apply Hn. clear - Hin. induction r as [|q t IHr]; cbn in *; [exact Hin|].
  destruct (f q); cbn in Hin; [destruct Hin; [left; assumption|right; apply IHr; assumption]|right; apply IHr; assumption].
Qed.

(* for EVERY history of Register / Unregister / DisposeAll the registered names are distinct, so the DisposeAll that
   follows disposes each registered resource exactly once (in reverse registration order) and leaves nothing registered *)
Theorem rm_registered_distinct ops : NoDup (map fst (rm_order (rm_run ops))).
Proof.
  unfold rm_run. apply fold_left_inv; [|cbn; constructor].
  intros s op H. destruct op as [id f|id|]; cbn [rm_apply].
  - destruct (rm_has id (rm_order s)) eqn:E; cbn [rm_order]; [exact H|].
    rewrite map_app. cbn.
    assert (Hn : ~ In id (map fst (rm_order s))) by (apply rm_has_in; exact E).
    clear E. induction (rm_order s) as [|p r IH]; cbn in *; [constructor; [auto|constructor]|].
    inversion H as [|x xs Hx Hr]; subst. constructor.
    + rewrite in_app_iff. intros [Hin|[Hin|[]]]; [exact (Hx Hin)|]. apply Hn. left. symmetry. exact Hin.
    + apply IH; [exact Hr|]. intros Hin. apply Hn. right. exact Hin.
  - destruct (rm_has id (rm_order s)); cbn [rm_order]; [apply nodup_filter_fst; exact H|exact H].
  - cbn. constructor.
Qed.

Theorem rm_dispose_all_once ops :
  let s := rm_run ops in let s' := rm_apply s RmDisposeAll in
  rm_order s' = [] /\ rm_log s' = rm_log s ++ rev (map fst (rm_order s)) /\ NoDup (rev (map fst (rm_order s))).
Proof.
  intros s s'. split; [reflexivity|]. split.
  - unfold s'. cbn. rewrite map_rev. reflexivity.
  - apply NoDup_rev. apply rm_registered_distinct.
Qed.

(* DisposeWithTimeout, buffered result channel: wherever the caller, the timer and the slow resource stand, once the slow
   resource has finished the helper needs two steps of its own and is gone: its send can never block *)
Theorem timeout_helper_always_finishes sh ls h :
  t_gate sh = true ->
  (nth_error ls h = Some HRun \/ nth_error ls h = Some HSend \/ nth_error ls h = Some HDone) ->
  nth_error (snd (run _ _ (tstep2 true) (sh, ls) [h; h])) h = Some HDone.
Proof.
  intros Hg Hh.
  assert (Hlen : h < length ls) by (apply nth_error_Some; destruct Hh as [E|[E|E]]; congruence).
  cbn [run fold_left]. unfold sys_step at 2. cbn [fst snd].
  destruct Hh as [E|[E|E]]; rewrite E; cbn [tstep2 orb]; try rewrite Hg; cbn [fst snd];
    unfold sys_step; cbn [fst snd]; rewrite nth_error_upd_nth_same by exact Hlen; cbn [tstep2 orb fst snd];
    rewrite nth_error_upd_nth_same by (rewrite upd_nth_length; exact Hlen); reflexivity.
Qed.

(* unbuffered: the timer fires, the caller returns the timeout result, the slow resource finishes, the helper reaches its
   send — and no schedule ever moves it again: a goroutine started by the shutdown call outlives it *)
Lemma unbuffered_result_channel_refuted :
  exists pre,
    let s := run _ _ (tstep2 false) (tinit2, [HRun; CSelect true; TFire; GOpen]) pre in
    snd s = [HSend; CRet true; TFired; GOpened] /\ (forall sched, run _ _ (tstep2 false) s sched = s).
Proof.
  exists [2; 1; 3; 0]. split; [vm_compute; reflexivity|].
  apply run_fixpoint. intros [|[|[|[|i]]]]; try (vm_compute; reflexivity). destruct i; vm_compute; reflexivity.
Qed.

(* ================================================================================================ *)
(* C (composition). traffic totals are reported once: all schedules, then the last quiescent report  *)
(* ================================================================================================ *)
From Coq Require Import ZArith.
Theorem traffic_totals_reported_once (base : Z) ts sched :
  forallb r_initial ts = true ->
  let s := rrun true base ts sched in
  forallb r_finished (snd s) = true ->
  let sh' := report_alone true (fst s) in
  (r_stats sh' = base + r_cnt (fst s))%Z /\ r_last sh' = r_cnt (fst s) /\ r_cnt sh' = r_cnt (fst s) /\ r_mu sh' = false /\
  (r_stats (fst s) - base = zsum (r_calls (fst s)))%Z /\ (r_stats (fst s) - base <= r_cnt (fst s))%Z.
Proof.
  intros Hi s Hf sh'.
  destruct (traffic_once_all_schedules base ts sched Hi) as (Hsum & _ & Hle & Hidle & Hfin). fold s in Hsum, Hle, Hidle, Hfin.
  pose proof (Hfin Hf) as Hm. destruct (Hidle Hm) as [Hl Hc].
  destruct (report_alone_complete base (fst s) Hm) as (H1 & H2 & H3 & H4); [lia|exact Hc|].
  repeat split; assumption.
Qed.

(* non-vacuity of the hypotheses of the round-3 / round-4 theorems and of "every thread has finished" in the traffic model *)
Lemma more_premises_satisfiable :
  Forall q_ok [QStart; QStart; QClose] /\
  NoDup (flat_map b_pending [BClose; BAttach 7; BClose; BAttach 8]) /\
  forallb i_initial [ILookup; ILookup; IMgrClose] = true /\
  (exists sched, forallb r_finished (snd (rrun true 0 [CAdd [100%Z]; RLock; RLock] sched)) = true /\
                 r_stats (fst (rrun true 0 [CAdd [100%Z]; RLock; RLock] sched)) = 100%Z).
Proof.
  split; [repeat constructor|]. split.
  { cbn. constructor; [intros [H|[]]; discriminate|]. constructor; [intros []|constructor]. }
  split; [reflexivity|].
  exists ([0] ++ repeat 1 8 ++ repeat 2 8)%nat. vm_compute. split; reflexivity.
Qed.

(* the model-level part of "after close has returned ... no goroutine or timer started by the component remains" *)
Lemma nothing_left_running_model_level :
  (forall spawns ts sched, forallb (e_initial true) ts = true ->
     let s := erun true spawns ts sched in
     forallb e_returned (snd s) = true -> existsb e_is_closer (snd s) = true -> e_monitors_alive (fst s) = false) /\
  (forall sh ls h, t_gate sh = true ->
     (nth_error ls h = Some HRun \/ nth_error ls h = Some HSend \/ nth_error ls h = Some HDone) ->
     nth_error (snd (run _ _ (tstep2 true) (sh, ls) [h; h])) h = Some HDone) /\
  (forall ts pre, forallb f_initial ts = true -> existsb f_is_closer ts = true ->
     exists sched, forallb f_finished
                     (snd (run _ _ (fstep false true) (run _ _ (fstep false true) (finit, ts) pre) sched)) = true).
Proof.
  split; [|split].
  - intros spawns ts sched Hi s Hr Hc.
    destruct (start_close_all_schedules spawns ts sched Hi) as (_ & _ & H). exact (proj2 (proj2 (H Hr Hc))).
  - exact timeout_helper_always_finishes.
  - intros ts pre Hi Hc. exact (proj2 (close_completes_despite_stalled_writes ts pre Hi Hc)).
Qed.

(* ================================================================================================ *)
(* J2. DisposeAll works on a snapshot: Register calls made while it runs                              *)
(* ================================================================================================ *)
Lemma skipn_nth_cons {A} (d : A) : forall (l : list A) i, i < length l -> skipn i l = nth i l d :: skipn (S i) l.
Proof.
  induction l as [|h t IH]; intros [|i] H; cbn in *; try lia; [reflexivity|]. apply IH. lia.
Qed.

Definition areg_ok (sh : ash) (t : apc) : Prop :=
  match t with ARegDone id => In id (a_live sh) \/ In id (a_old sh) | AReg _ => True | _ => False end.

Definition AInv (l0 : list nat) (s : ash * list apc) : Prop :=
  let sh := fst s in
  exists pc0 tl, snd s = pc0 :: tl /\ Forall (areg_ok sh) tl /\
    match pc0 with
    | ALoopStart => a_arr sh = [] /\ a_old sh = [] /\ a_disposed sh = [] /\ exists ext, a_live sh = l0 ++ ext
    | ALoop i => a_arr sh = a_old sh /\ i <= length (a_old sh) /\ a_disposed sh = rev (skipn i (a_old sh)) /\ exists ext, a_old sh = l0 ++ ext
    | ALoopDone => a_arr sh = a_old sh /\ a_disposed sh = rev (a_old sh) /\ exists ext, a_old sh = l0 ++ ext
    | _ => False
    end.

Lemma ainv_step l0 s i : AInv l0 s -> AInv l0 (sys_step _ _ (astep false) s i).
Proof.
  destruct s as [sh ls]. unfold AInv. cbn [fst snd]. intros (pc0 & tl & -> & Hreg & Hpc).
  unfold sys_step. cbn [fst snd]. destruct i as [|j].
  - (* the dispose loop steps *)
    cbn [nth_error upd_nth].
    destruct pc0 as [|k| | |]; try contradiction.
    + destruct Hpc as (Ha & Ho & Hd & ext & Hl). cbn [astep fst snd a_arr a_old a_live a_disposed].
      exists (ALoop (length (a_live sh))), tl. split; [reflexivity|]. split.
      * eapply Forall_impl; [|exact Hreg]. intros t. unfold areg_ok. cbn [a_live a_old]. destruct t; auto.
        intros [H|H]; [right; exact H|rewrite Ho in H; destruct H].
      * cbn [a_arr a_old a_disposed]. split; [reflexivity|]. split; [lia|]. split.
        { rewrite skipn_all. cbn. exact Hd. }
        exists ext. exact Hl.
    + destruct Hpc as (Ha & Hk & Hd & Hext). destruct k as [|k]; cbn [astep fst snd].
      * exists ALoopDone, tl. split; [reflexivity|]. split; [exact Hreg|]. split; [exact Ha|]. split; [|exact Hext].
        rewrite Hd. cbn. reflexivity.
      * assert (Hin : existsb (Nat.eqb (nth k (a_arr sh) 0)) (a_old sh) = true).
        { rewrite Ha. apply existsb_exists. exists (nth k (a_old sh) 0). split; [apply nth_In; lia|apply Nat.eqb_refl]. }
        rewrite Hin. cbn [fst snd a_arr a_old a_live a_disposed].
        exists (ALoop k), tl. split; [reflexivity|]. split; [exact Hreg|]. cbn [a_arr a_old a_disposed].
        split; [exact Ha|]. split; [lia|]. split; [|exact Hext].
        rewrite Hd, Ha. rewrite (skipn_nth_cons 0 (a_old sh) k) by lia. cbn [rev]. reflexivity.
    + cbn [astep fst snd]. exists ALoopDone, tl. auto.
  - (* a Register thread steps *)
    cbn [nth_error upd_nth]. destruct (nth_error tl j) as [x|] eqn:En; [|exists pc0, tl; auto].
    assert (Hx : areg_ok sh x) by (eapply Forall_nth; eauto).
    destruct x as [| | |id|id]; cbn in Hx; try contradiction; cbn [astep fst snd].
    + (* AReg id *)
      exists pc0, (upd_nth j (ARegDone id) tl). split; [reflexivity|]. split.
      * apply Forall_upd.
        -- eapply Forall_impl; [|exact Hreg]. intros t. unfold areg_ok. cbn [a_live a_old]. destruct t; auto.
           intros [H|H]; [left; apply in_or_app; left; exact H|right; exact H].
        -- cbn. left. apply in_or_app. right. left. reflexivity.
      * cbn [a_arr a_old a_live a_disposed]. destruct pc0; try exact Hpc.
        destruct Hpc as (Ha & Ho & Hd & ext & Hl). repeat (split; [assumption|]).
        exists (ext ++ [id]). rewrite Hl, app_assoc. reflexivity.
    + exists pc0, (upd_nth j (ARegDone id) tl). rewrite (upd_nth_same tl j _ En). auto.
Qed.

(* one DisposeAll and ANY number of Register calls (from inside a resource's Dispose or from other goroutines), ANY
   schedule: when DisposeAll has finished it has disposed exactly its snapshot, each entry once, in reverse order; the snapshot
   contains everything registered before it started; and no completed registration is lost: its resource was disposed by
   this DisposeAll or is registered afterwards *)
Theorem dispose_all_snapshot_all_schedules l0 regs sched :
  let s := run _ _ (astep false) (ainit l0, ALoopStart :: map AReg regs) sched in
  nth_error (snd s) 0 = Some ALoopDone ->
  a_disposed (fst s) = rev (a_old (fst s)) /\ (exists ext, a_old (fst s) = l0 ++ ext) /\
  (forall id, In (ARegDone id) (snd s) -> In id (a_live (fst s)) \/ In id (a_disposed (fst s))).
Proof.
  intros s Hdone.
  assert (HI : AInv l0 s).
  { unfold s. apply inv_all_schedules; [intros s0 i; apply ainv_step|].
    exists ALoopStart, (map AReg regs). split; [reflexivity|]. split.
    - rewrite Forall_forall. intros t Ht. apply in_map_iff in Ht. destruct Ht as (id & <- & _). exact I.
    - cbn. repeat split; auto. exists []. symmetry. apply app_nil_r. }
  destruct s as [sh ls]. destruct HI as (pc0 & tl & Hls & Hreg & Hpc). cbn [fst snd] in *. subst ls. cbn in Hdone.
  inversion Hdone; subst pc0. destruct Hpc as (Ha & Hd & Hext).
  split; [exact Hd|]. split; [exact Hext|].
  intros id [H|Hin]; [discriminate|]. rewrite Forall_forall in Hreg. specialize (Hreg _ Hin). cbn in Hreg.
  destruct Hreg as [H|H]; [left; exact H|right]. rewrite Hd. apply in_rev in H. rewrite <- in_rev. rewrite <- in_rev in H. exact H.
Qed.

(* the loop reads the manager's own backing array: a Register made while resource 2 is being disposed overwrites the slot
   of resource 1, which is then never disposed and registered nowhere *)
Lemma dispose_all_aliased_order_refuted :
  exists sched,
    let s := run _ _ (astep true) (ainit [1; 2], [ALoopStart; AReg 5]) sched in
    snd s = [ALoopDone; ARegDone 5] /\ a_disposed (fst s) = [2] /\ a_live (fst s) = [5].
Proof. exists [0; 0; 1; 0; 0]. vm_compute. auto. Qed.

(* ================================================================================================ *)
(* K. mapping handler statistics: swap, upload, roll back on failure                                 *)
(* ================================================================================================ *)
Open Scope Z_scope.
Lemma zsum_app2 a b : zsum (a ++ b) = zsum a + zsum b.
Proof. unfold zsum. induction a as [|h t IH]; cbn; [lia|]. fold (zsum (t ++ b)) in *. fold (zsum t) in *. fold (zsum b) in *. rewrite IH. lia. Qed.

Definition kth_ok (t : kpc) : Prop :=
  match t with KUpload v _ => 0 < v | KSub _ => False | KAdd todo => Forall (fun d => 0 <= d) todo | _ => True end.
Definition KInv (s : ksh * list kpc) : Prop :=
  let sh := fst s in let ls := snd s in
  Forall kth_ok ls /\ 0 <= k_cnt sh /\ 0 <= k_up sh /\
  k_up sh + k_cnt sh + zsum (flat_map k_inflight ls) = k_added sh.

Lemma inflight_nonneg ls : Forall kth_ok ls -> 0 <= zsum (flat_map k_inflight ls).
Proof.
  induction ls as [|t r IH]; intros H; cbn; [lia|]. inversion H as [|x xs Hx Hr]; subst. rewrite zsum_app2.
  specialize (IH Hr). destruct t; cbn in *; lia.
Qed.

Lemma kinv_step s i : KInv s -> KInv (sys_step _ _ (kstep true) s i).
Proof.
  destruct s as [sh ls]. unfold KInv, sys_step. cbn [fst snd]. intros (Hok & Hc & Hu & Hsum).
  destruct (nth_error ls i) as [x|] eqn:En; [|cbn [fst snd]; auto 10].
  assert (Hx : kth_ok x) by (eapply Forall_nth; eauto).
  destruct (fm_upd2 k_inflight ls i x En) as (a & b & Ha & Hupd).
  rewrite Ha in Hsum. rewrite !zsum_app2 in Hsum.
  destruct sh as [cn up ad]. cbn [k_cnt k_up k_added] in *.
  destruct x as [f|v f|v| |todo]; cbn [kstep k_cnt k_up k_added]; cbn in Hx.
  - (* KTake: Swap(0) *)
    destruct (0 <? cn) eqn:E; cbn [fst snd k_cnt k_up k_added].
    + apply Z.ltb_lt in E. split; [apply Forall_upd; [exact Hok|exact E]|].
      rewrite Hupd, !zsum_app2. cbn [k_inflight zsum fold_right] in *. repeat split; lia.
    + apply Z.ltb_ge in E. split; [apply Forall_upd; [exact Hok|exact I]|].
      rewrite Hupd, !zsum_app2. cbn [k_inflight zsum fold_right] in *. repeat split; lia.
  - (* KUpload *)
    destruct f; cbn [fst snd k_cnt k_up k_added]; (split; [apply Forall_upd; [exact Hok|exact I]|]);
      rewrite Hupd, !zsum_app2; cbn [k_inflight zsum fold_right] in *; repeat split; lia.
  - destruct Hx.
  - cbn [fst snd]. rewrite (upd_nth_same ls i _ En). rewrite Ha, !zsum_app2. auto 10.
  - destruct todo as [|d r]; cbn [fst snd k_cnt k_up k_added].
    + rewrite (upd_nth_same ls i _ En). rewrite Ha, !zsum_app2. auto 10.
    + inversion Hx as [|d' r' Hd Hr]; subst. split; [apply Forall_upd; [exact Hok|exact Hr]|].
      rewrite Hupd, !zsum_app2. cbn [k_inflight zsum fold_right] in *. repeat split; lia.
Qed.

(* ANY number of reporters (periodic ticks, the final report of the clean-up handler; each upload may fail) and of tunnels
   adding their totals, ANY schedule: what has been uploaded never exceeds what was counted (no byte is reported twice), and
   once every thread has finished, uploaded + still-local = counted (no byte is lost), the local counter is never negative *)
Theorem stats_conserved_all_schedules ts sched :
  forallb k_initial ts = true ->
  let s := run _ _ (kstep true) (kinit, ts) sched in
  k_up (fst s) <= k_added (fst s) /\ 0 <= k_cnt (fst s) /\
  (forallb k_finished (snd s) = true -> k_up (fst s) + k_cnt (fst s) = k_added (fst s)).
Proof.
  intros Hi s.
  assert (HI : KInv s).
  { unfold s. apply inv_all_schedules; [intros s0 i; apply kinv_step|].
    rewrite forallb_forall in Hi. unfold KInv. cbn [fst snd kinit k_cnt k_up k_added].
    assert (E : flat_map k_inflight ts = []).
    { induction ts as [|t r IH]; cbn; [reflexivity|].
      assert (Ht : k_initial t = true) by (apply Hi; left; reflexivity).
      destruct t; cbn in Ht; try discriminate; cbn; apply IH; intros y Hy; apply Hi; right; exact Hy. }
    rewrite E. cbn. split; [|lia].
    rewrite Forall_forall. intros t Ht. apply Hi in Ht. destruct t; cbn in Ht; try discriminate; try exact I.
    cbn. rewrite Forall_forall. rewrite forallb_forall in Ht. intros d Hd. apply Ht in Hd. apply Z.leb_le in Hd. exact Hd. }
  destruct s as [sh ls]. destruct HI as (Hok & Hc & Hu & Hsum). cbn [fst snd] in *.
  pose proof (inflight_nonneg ls Hok) as Hpos.
  split; [lia|]. split; [exact Hc|]. intros Hf.
  assert (E : flat_map k_inflight ls = []).
  { rewrite forallb_forall in Hf. clear - Hf. induction ls as [|t r IH]; cbn; [reflexivity|].
    assert (Ht : k_finished t = true) by (apply Hf; left; reflexivity).
    destruct t; cbn in Ht; try discriminate; cbn; apply IH; intros y Hy; apply Hf; right; exact Hy. }
  rewrite E in Hsum. cbn in Hsum. lia.
Qed.

(* load, upload, subtract on success: the periodic report and the final report both load the same 1000 bytes *)
Lemma stats_load_subtract_refuted :
  exists sched,
    let s := run _ _ (kstep false) (kinit, [KAdd [1000]; KTake false; KTake false]) sched in
    forallb k_finished (snd s) = true /\ k_added (fst s) = 1000 /\ k_up (fst s) = 2000 /\ k_cnt (fst s) = -1000.
Proof. exists [0; 1; 2; 1; 2; 1; 2]%nat. vm_compute. auto. Qed.
Close Scope Z_scope.

(* ================================================================================================ *)
(* L. the clean-up handler's final report is guarded by a timer                                      *)
(* ================================================================================================ *)
Definition l_closer (t : lpc) : Prop := t = LSpawn \/ t = LWait \/ t = LRest \/ t = LDone.
Definition LInvG (s : lsh * list lpc) : Prop :=
  exists a b c d, snd s = [a; b; c; d] /\ l_closer a /\ (b = LReport \/ b = LReported) /\
    ((c = LTimer) \/ (c = LTimerFired /\ l_timer (fst s) = true)) /\ (d = LBackend \/ d = LBackendUp).

Lemma linvg_step s i : LInvG s -> LInvG (sys_step _ _ (lstep true) s i).
Proof.
  destruct s as [sh ls]. intros (a & b & c & d & Hls & Ha & Hb & Hc & Hd). cbn [fst snd] in *. subst ls.
  destruct sh as [bk rp tm]. unfold LInvG, l_closer in *. cbn [l_timer] in *.
  destruct i as [|[|[|[|i]]]]; unfold sys_step; cbn [fst snd nth_error upd_nth].
  - destruct Ha as [-> | [-> | [-> | ->]]]; cbn [lstep l_reported l_timer andb orb];
      try (destruct (rp || tm)); cbn [fst snd l_timer]; eexists _, _, _, _; (split; [reflexivity|]); auto 10.
  - destruct Hb as [-> | ->]; cbn [lstep l_backend]; try destruct bk; cbn [fst snd l_timer]; eexists _, _, _, _; (split; [reflexivity|]); auto 10.
  - destruct Hc as [-> | [-> Ht]]; cbn [lstep fst snd l_timer]; eexists _, _, _, _; (split; [reflexivity|]); auto 10.
  - destruct Hd as [-> | ->]; cbn [lstep fst snd l_timer]; eexists _, _, _, _; (split; [reflexivity|]); auto 10.
  - destruct i; cbn; eexists _, _, _, _; (split; [reflexivity|]); auto 10.
Qed.

(* whatever the closer, the report helper, the timer and the backend have done so far — in particular if the backend NEVER
   answers — letting the timer fire and the closer take three more steps ends the clean-up: Close returns *)
Theorem guarded_final_report_close_completes pre :
  let s := run _ _ (lstep true) (linit, [LSpawn; LReport; LTimer; LBackend]) pre in
  nth_error (snd (run _ _ (lstep true) s [2; 0; 0; 0])) 0 = Some LDone.
Proof.
  intros s.
  assert (HI : LInvG s).
  { unfold s. apply inv_all_schedules; [intros s0 i; apply linvg_step|].
    exists LSpawn, LReport, LTimer, LBackend. unfold l_closer. cbn. auto 10. }
  destruct s as [sh ls]. destruct HI as (a & b & c & d & Hls & Ha & Hb & Hc & Hd). cbn [fst snd] in *. subst ls.
  destruct sh as [bk rp tm]. unfold l_closer in Ha. cbn [l_timer] in Hc.
  destruct Ha as [-> | [-> | [-> | ->]]]; destruct Hc as [-> | [-> Ht]]; try subst tm; destruct rp; vm_compute; reflexivity.
Qed.

(* the synchronous final report: the backend never answers, the timer fires in vain, no schedule moves any thread again
   and the closer is still waiting *)
Lemma unguarded_final_report_refuted :
  exists pre,
    let s := run _ _ (lstep false) (linit, [LSpawn; LReport; LTimer]) pre in
    snd s = [LWait; LReport; LTimerFired] /\ (forall sched, run _ _ (lstep false) s sched = s).
Proof.
  exists [0; 2]. split; [vm_compute; reflexivity|].
  apply run_fixpoint. intros [|[|[|i]]]; try (vm_compute; reflexivity). destruct i; vm_compute; reflexivity.
Qed.

(* ================================================================================================ *)
(* M. the close latch: test and set in one critical section                                          *)
(* ================================================================================================ *)
Definition mrun (t : mpc) : list unit := match t with MRun => [tt] | _ => [] end.
Definition MInv (s : msh * list mpc) : Prop :=
  Forall (fun t => t <> MLock) (snd s) /\
  m_runs (fst s) + length (flat_map mrun (snd s)) + (if m_closed (fst s) then 0 else 1) = 1.

Lemma minv_step s i : MInv s -> MInv (sys_step _ _ (mstep true) s i).
Proof.
  destruct s as [sh ls]. unfold MInv, sys_step. cbn [fst snd]. intros [Hok Hc].
  destruct (nth_error ls i) as [x|] eqn:En; [|cbn [fst snd]; auto].
  assert (Hx : x <> MLock) by (exact (Forall_nth _ ls i x Hok En)).
  destruct (fm_upd2 mrun ls i x En) as (a & b & Ha & Hupd).
  rewrite Ha in Hc. rewrite !app_length in Hc. destruct sh as [cl lk rn]. cbn [m_closed m_lock m_runs] in *.
  destruct x; cbn [mstep m_closed m_lock m_runs]; try congruence.
  - destruct lk; cbn [fst snd]; [rewrite (upd_nth_same ls i _ En); split; [exact Hok|rewrite Ha, !app_length; exact Hc]|].
    destruct cl; cbn [fst snd m_closed m_lock m_runs].
    + split; [apply Forall_upd; [exact Hok|discriminate]|]. rewrite Hupd, !app_length. cbn [mrun length] in *. lia.
    + split; [apply Forall_upd; [exact Hok|discriminate]|]. rewrite Hupd, !app_length. cbn [mrun length] in *. lia.
  - cbn [fst snd m_closed m_lock m_runs]. split; [apply Forall_upd; [exact Hok|discriminate]|].
    rewrite Hupd, !app_length. cbn [mrun length] in *. lia.
  - cbn [fst snd m_closed m_lock m_runs]. split; [apply Forall_upd; [exact Hok|discriminate]|].
    rewrite Hupd, !app_length. cbn [mrun length] in *. lia.
  - cbn [fst snd]. rewrite (upd_nth_same ls i _ En). split; [exact Hok|rewrite Ha, !app_length; exact Hc].
Qed.

(* ANY number of closers entering Close at any instants, ANY schedule: the handlers run at most once *)
Theorem latch_runs_at_most_once k sched : m_runs (fst (run _ _ (mstep true) (minit, repeat MCheck k) sched)) <= 1.
Proof.
  assert (HI : MInv (run _ _ (mstep true) (minit, repeat MCheck k) sched)).
  { apply inv_all_schedules; [intros s0 i; apply minv_step|]. split; cbn [fst snd minit m_closed m_runs].
    - apply Forall_forall. intros t Ht. apply repeat_spec in Ht. subst t. discriminate.
    - assert (E : flat_map mrun (repeat MCheck k) = []) by (induction k; cbn; auto). rewrite E. reflexivity. }
  destruct HI as [_ H]. destruct (m_closed _); lia.
Qed.

(* check-then-act: two closers both pass the IsClosed test before either sets the flag: the handlers run twice *)
Lemma latch_check_then_act_refuted :
  exists sched, m_runs (fst (run _ _ (mstep false) (minit, [MCheck; MCheck]) sched)) = 2.
Proof. exists [0; 1; 0; 0; 0; 1; 1; 1]. vm_compute. reflexivity. Qed.

(* ================================================================================================ *)
(* N. register refused while any entry exists: unregister-by-id never removes somebody else's entry  *)
(* ================================================================================================ *)
Definition NInv (s : nsh * list npc) : Prop :=
  let sh := fst s in
  exists pc0 tl, snd s = pc0 :: tl /\ Forall (fun t => match t with NReg _ | NRegRet _ => True | _ => False end) tl /\
    (forall b, In b (n_regok sh) -> n_entry sh = Some b) /\
    match pc0 with
    | NMark | NUnreg => n_entry sh = Some 0 /\ n_regok sh = []
    | NDone => True
    | _ => False
    end.

Lemma ninv_step s i : NInv s -> NInv (sys_step _ _ (nstep false) s i).
Proof.
  destruct s as [sh ls]. unfold NInv. cbn [fst snd]. intros (pc0 & tl & -> & Htl & Hreg & Hpc).
  unfold sys_step. cbn [fst snd]. destruct i as [|j]; cbn [nth_error upd_nth].
  - destruct pc0; try contradiction; cbn [nstep fst snd n_entry n_regok].
    + exists NUnreg, tl. repeat split; auto. exact (proj1 Hpc). exact (proj2 Hpc).
    + exists NDone, tl. split; [reflexivity|]. split; [exact Htl|]. split; [|exact I].
      intros b Hb. destruct Hpc as [_ Hr]. rewrite Hr in Hb. destruct Hb.
    + exists NDone, tl. auto.
  - destruct (nth_error tl j) as [x|] eqn:En; [|exists pc0, tl; auto].
    assert (Hx := Forall_nth _ tl j x Htl En). destruct x as [| | |b|ok]; try contradiction; cbn [nstep andb].
    + destruct (n_entry sh) as [o|] eqn:Ee; cbn [fst snd n_entry n_regok].
      * exists pc0, (upd_nth j (NRegRet false) tl). split; [reflexivity|]. split; [apply Forall_upd; [exact Htl|exact I]|]. rewrite Ee. auto.
      * exists pc0, (upd_nth j (NRegRet true) tl). split; [reflexivity|]. split; [apply Forall_upd; [exact Htl|exact I]|]. split.
        -- intros b' Hb. apply in_app_or in Hb. destruct Hb as [Hb|[<-|[]]]; [|reflexivity].
           apply Hreg in Hb. congruence.
        -- destruct pc0; try contradiction; try exact I; destruct Hpc as [He _]; congruence.
    + exists pc0, (upd_nth j (NRegRet ok) tl). rewrite (upd_nth_same tl j _ En). auto.
Qed.

(* the closer of tunnel 0 and ANY number of registrations under the same id, ANY schedule: every tunnel whose registration
   succeeded is the manager's current entry (so manager.Close() reaches it): it is never made invisible by the old tunnel's
   UnregisterTunnel(id) *)
Theorem registered_tunnels_stay_visible regs sched :
  let s := run _ _ (nstep false) (ninit, NMark :: map NReg regs) sched in
  forall b, In b (n_regok (fst s)) -> n_entry (fst s) = Some b.
Proof.
  intros s. assert (HI : NInv s).
  { unfold s. apply inv_all_schedules; [intros s0 i; apply ninv_step|].
    exists NMark, (map NReg regs). split; [reflexivity|]. split.
    - apply Forall_forall. intros t Ht. apply in_map_iff in Ht. destruct Ht as (b & <- & _). exact I.
    - cbn. split; [intros b []|auto]. }
  destruct HI as (pc0 & tl & _ & _ & Hreg & _). exact Hreg.
Qed.

(* a Closing tunnel's entry may be replaced: B is registered while A is between its state CAS and UnregisterTunnel(id); A's
   unregister then deletes B's entry: B was registered successfully and is invisible to the manager *)
Lemma replace_closing_entry_refuted :
  exists sched,
    let s := run _ _ (nstep true) (ninit, [NMark; NReg 7]) sched in
    snd s = [NDone; NRegRet true] /\ n_regok (fst s) = [7] /\ n_entry (fst s) = None.
Proof. exists [0; 1; 0]. vm_compute. auto. Qed.

(* ================================================================================================ *)
(* O. handlers that do not take the component's own Dispose lock: the lock holder is never blocked   *)
(* ================================================================================================ *)
Definition ohold (t : opc) : list opc := match t with ORun | OUnlock => [t] | _ => [] end.
Definition OInv (s : osh * list opc) : Prop :=
  (o_lock (fst s) = false /\ flat_map ohold (snd s) = []) \/ (o_lock (fst s) = true /\ exists h, flat_map ohold (snd s) = [h]).

Lemma oinv_step s i : OInv s -> OInv (sys_step _ _ (ostep false) s i).
Proof.
  destruct s as [sh ls]. unfold OInv, sys_step. cbn [fst snd]. intros H.
  destruct (nth_error ls i) as [x|] eqn:En; [|exact H].
  destruct (fm_upd2 ohold ls i x En) as (a & b & Ha & Hupd). destruct sh as [lk cl rn]. cbn [o_lock] in *.
  destruct x; cbn [ostep o_lock o_closed andb]; cbn [ohold] in Ha.
  - destruct lk; cbn [fst snd o_lock]; [rewrite (upd_nth_same ls i _ En); exact H|].
    destruct H as [[_ Hh]|[Hl _]]; [|discriminate]. rewrite Ha in Hh. apply app_nil3 in Hh. destruct Hh as (-> & _ & ->).
    destruct cl; cbn [fst snd o_lock]; [left; split; [reflexivity|rewrite Hupd; reflexivity]|].
    right. split; [reflexivity|]. exists ORun. rewrite Hupd. reflexivity.
  - cbn [fst snd o_lock]. destruct H as [[_ Hh]|[Hl (h & Hh)]]; [rewrite Ha in Hh; exfalso; eapply app_mid_nil; exact Hh|].
    rewrite Ha in Hh. cbn [app] in Hh. apply app_single in Hh. destruct Hh as (-> & -> & _).
    right. split; [exact Hl|]. exists OUnlock. rewrite Hupd. reflexivity.
  - cbn [fst snd o_lock]. destruct H as [[_ Hh]|[Hl (h & Hh)]]; [rewrite Ha in Hh; exfalso; eapply app_mid_nil; exact Hh|].
    rewrite Ha in Hh. cbn [app] in Hh. apply app_single in Hh. destruct Hh as (-> & -> & _).
    left. split; [reflexivity|]. rewrite Hupd. reflexivity.
  - cbn [fst snd]. rewrite (upd_nth_same ls i _ En). exact H.
Qed.

(* ANY number of closers, ANY schedule: whenever the Dispose lock is held, its holder is a thread whose next step is enabled
   (it runs the handlers, then unlocks): Close / Stop never waits on itself *)
Theorem lock_holder_never_blocked k sched :
  let s := run _ _ (ostep false) (oinit, repeat OLock k) sched in
  o_lock (fst s) = true ->
  exists i t, nth_error (snd s) i = Some t /\ (t = ORun \/ t = OUnlock) /\ fst (ostep false t (fst s)) <> t.
Proof.
  intros s Hl. assert (HI : OInv s).
  { unfold s. apply inv_all_schedules; [intros s0 i; apply oinv_step|]. left. split; [reflexivity|].
    cbn [snd]. clear. induction k as [|k IH]; cbn; [reflexivity|exact IH]. }
  destruct HI as [[Hf _]|[_ (h & Hh)]]; [congruence|].
  assert (Hne : flat_map ohold (snd s) <> []) by (rewrite Hh; discriminate).
  apply fm_nonempty in Hne. destruct Hne as (x & Hx & Hf). destruct (In_nth_error _ _ Hx) as [i Hi].
  exists i, x. split; [exact Hi|]. destruct x; cbn in Hf; try congruence; (split; [auto|]); cbn; discriminate.
Qed.

(* a clean handler that takes the lock of its own Dispose (the tunnels' OnClosed closure calling h.IsClosed() while Stop()
   runs the clean-up handler): the closer waits for itself, no schedule moves anything, the handler never ran *)
Lemma reentrant_handler_refuted :
  exists pre,
    let s := run _ _ (ostep true) (oinit, [OLock; OLock]) pre in
    snd s = [ORun; OLock] /\ o_ran (fst s) = 0 /\ (forall sched, run _ _ (ostep true) s sched = s).
Proof.
  exists [0]. split; [vm_compute; reflexivity|]. split; [vm_compute; reflexivity|].
  apply run_fixpoint. intros [|[|i]]; try (vm_compute; reflexivity). destruct i; vm_compute; reflexivity.
Qed.

(* ================================================================================================ *)
(* P. the batched counter: exactly one flush on every exit path                                      *)
(* ================================================================================================ *)
Open Scope N_scope.
Lemma cp_fold_inv threshold chunks : forall s, cp_counter s + cp_batch s = cp_total s ->
  let s' := fold_left (cp_chunk threshold) chunks s in
  cp_counter s' + cp_batch s' = cp_total s' /\ cp_total s' = cp_total s + fold_right N.add 0 chunks.
Proof.
  induction chunks as [|n r IH]; intros s H; cbn [fold_left fold_right]; [split; [exact H|lia]|].
  assert (H' : cp_counter (cp_chunk threshold s n) + cp_batch (cp_chunk threshold s n) = cp_total (cp_chunk threshold s n)).
  { unfold cp_chunk. destruct (threshold <=? cp_batch s + n); cbn [cp_counter cp_batch cp_total]; lia. }
  destruct (IH _ H') as [I1 I2]. split; [exact I1|].
  rewrite I2. unfold cp_chunk. destruct (threshold <=? cp_batch s + n); cbn [cp_total]; lia.
Qed.

(* EVERY sequence of delivered chunks, EVERY threshold, BOTH exit paths (context check / break): the shared counter ends up
   equal to the bytes delivered *)
Theorem copy_counter_exact threshold chunks via_ctx :
  let s := cp_run true true false threshold chunks via_ctx in
  cp_counter s = fold_right N.add 0 chunks /\ cp_total s = fold_right N.add 0 chunks.
Proof.
  unfold cp_run.
  destruct (cp_fold_inv threshold chunks {| cp_counter := 0; cp_batch := 0; cp_total := 0 |}) as [H1 H2]; [reflexivity|].
  cbn [cp_total] in H2. unfold cp_exit. destruct via_ctx; cbn [cp_counter cp_total]; split; lia.
Qed.

(* the half-finished "flush with a defer" refactoring (deferred flush added, the explicit add in the context branch kept):
   leaving through the context check counts the unflushed tail twice *)
Lemma copy_counter_double_flush_refuted :
  cp_counter (cp_run true false true 1048576 [7; 7; 7] true) = 42 /\ cp_total (cp_run true false true 1048576 [7; 7; 7] true) = 21.
Proof. vm_compute. auto. Qed.
Close Scope N_scope.

(* ================================================================================================ *)
(* Q. the connection slot is released exactly once                                                   *)
(* ================================================================================================ *)
Definition QSInv (s : qslot * list bool) : Prop :=
  (qs_active (fst s) + (if qs_once (fst s) then 1 else 0))%Z = 1%Z.

Lemma qsinv_step s i : QSInv s -> QSInv (sys_step _ _ (qrelease true) s i).
Proof.
  destruct s as [sh ls]. unfold QSInv, sys_step. cbn [fst snd]. intros H.
  destruct (nth_error ls i) as [x|]; [|exact H].
  destruct sh as [a o]. destruct x; cbn [qrelease fst snd]; [exact H|].
  destruct o; cbn [fst snd qs_active qs_once] in *; lia.
Qed.

(* ANY number of release attempts (the tunnel's OnClosed, the deferred failure path, ...), ANY schedule: the counter of a
   connection that took one slot is 1 or 0, never negative, and 0 exactly when a release has happened *)
Theorem slot_released_once k sched :
  let s := run _ _ (qrelease true) (qsinit, repeat false k) sched in
  (qs_active (fst s) = 1%Z \/ qs_active (fst s) = 0%Z) /\ (qs_once (fst s) = true <-> qs_active (fst s) = 0%Z).
Proof.
  intros s. assert (HI : QSInv s) by (unfold s; apply inv_all_schedules; [intros s0 i; apply qsinv_step|reflexivity]).
  unfold QSInv in HI. destruct (qs_once (fst s)); split; try (split; intros; try lia; try reflexivity; try discriminate); lia.
Qed.

(* the plain decrement: OnClosed (close notification between RegisterTunnel and Start) and the deferred failure path both
   release: the counter goes to -1 *)
Lemma slot_plain_decrement_refuted :
  exists sched, qs_active (fst (run _ _ (qrelease false) (qsinit, [false; false]) sched)) = (-1)%Z.
Proof. exists [0; 1]. vm_compute. reflexivity. Qed.

(* ================================================================================================ *)
(* R. the context is tested on every iteration of the read loop                                      *)
(* ================================================================================================ *)
(* once Close has cancelled the context, a read polling an idle reader returns after at most two steps of its own, whatever
   else runs *)
Theorem polling_read_returns_after_close sh ls h :
  rd_cancel sh = true -> (nth_error ls h = Some RChk \/ nth_error ls h = Some RRd \/ nth_error ls h = Some RRet) ->
  nth_error (snd (run _ _ (rdstep true) (sh, ls) [h; h])) h = Some RRet.
Proof.
  intros Hc Hh. destruct sh as [c]. cbn in Hc. subst c.
  assert (Hlen : h < length ls) by (apply nth_error_Some; destruct Hh as [E|[E|E]]; congruence).
  cbn [run fold_left]. unfold sys_step at 2. cbn [fst snd].
  destruct Hh as [E|[E|E]]; rewrite E; cbn [rdstep rd_cancel fst snd];
    unfold sys_step; cbn [fst snd]; rewrite nth_error_upd_nth_same by exact Hlen; cbn [rdstep rd_cancel fst snd];
    rewrite nth_error_upd_nth_same by (rewrite upd_nth_length; exact Hlen); reflexivity.
Qed.

(* the test hoisted out of the loop: Close returns, the read keeps polling and no schedule ever ends it *)
Lemma hoisted_context_check_refuted :
  exists pre,
    let s := run _ _ (rdstep false) ({| rd_cancel := false |}, [RChk; RCl]) pre in
    snd s = [RRd; RClDone] /\ rd_cancel (fst s) = true /\ (forall sched, run _ _ (rdstep false) s sched = s).
Proof.
  exists [0; 1]. split; [vm_compute; reflexivity|]. split; [vm_compute; reflexivity|].
  apply run_fixpoint. intros [|[|i]]; try (vm_compute; reflexivity). destruct i; vm_compute; reflexivity.
Qed.
